"""Helpers shared by the rule modules."""
import ast

from ..core.index import AnalysisError, walk_no_defs, calls_in, call_name, kwarg, dotted_name
from ..core.cfg import CFG, MustFacts, node_calls, node_exprs
from ..core.effects import Effects
from ..core import norm

WSP = "autobahn.websocket.protocol.WebSocketProtocol"
WSS = "autobahn.websocket.protocol.WebSocketServerProtocol"
WSC = "autobahn.websocket.protocol.WebSocketClientProtocol"
APPSESSION = "autobahn.wamp.protocol.ApplicationSession"
BASESESSION = "autobahn.wamp.protocol.BaseSession"


def _plain_read(e):
    if isinstance(e, ast.Constant):
        return False  # constants are handled by the resolver
    if isinstance(e, ast.Name):
        return True
    if isinstance(e, ast.Attribute):
        return _plain_read(e.value) or isinstance(e.value, ast.Name)
    if isinstance(e, ast.Call) and isinstance(e.func, ast.Name) and e.func.id == "len" and len(e.args) == 1 and not e.keywords:
        return _plain_read(e.args[0])
    if isinstance(e, ast.BinOp):
        return all(_plain_read(x) or isinstance(x, ast.Constant) for x in (e.left, e.right))
    return False


class Analysis:
    """Memoised per-function CFG + must-facts with effect-aware kills."""

    def __init__(self, program):
        self.p = program
        self.effects = Effects(program)
        self._cache = {}

    def cfg(self, fn):
        return self.get(fn)[0]

    def get(self, fn, entry_facts=()):
        k = (fn.qualname, getattr(fn, "variant", ""), tuple(sorted(map(repr, entry_facts))))
        if k not in self._cache:
            g = CFG(fn.node)
            res = norm.Resolver(self.p, fn.module, fn.cls)
            try:
                # single-definition locals naming a boolean expression or a plain read (attribute chain, len(), arithmetic of those): a test
                # that mentions the local also establishes the same fact about the expression it names
                bd = {n: e for n, e in local_canon(fn).items() if isinstance(e, (ast.Compare, ast.BoolOp)) or (isinstance(e, ast.UnaryOp) and isinstance(e.op, ast.Not))
                      or _plain_read(e)}
            except Exception:
                bd = {}
            mf = MustFacts(g, call_writes=self.effects.call_writes_fn(fn), entry_facts=entry_facts, resolver=res, bool_defs=bd)
            self._cache[k] = (g, mf, res)
        return self._cache[k]


def get_analysis(ctx):
    a = getattr(ctx, "_analysis", None)
    if a is None:
        a = Analysis(ctx.program)
        ctx._analysis = a
    return a


def is_self_attr(e, attr=None):
    return (isinstance(e, ast.Attribute) and isinstance(e.value, ast.Name) and e.value.id == "self"
            and (attr is None or e.attr == attr))


def self_call(call, name=None):
    f = call.func
    return (isinstance(f, ast.Attribute) and isinstance(f.value, ast.Name) and f.value.id == "self"
            and (name is None or f.attr == name or (isinstance(name, (set, tuple, list, frozenset)) and f.attr in name)))


def stmt_key(node):
    """Line-number free identity of a statement: its normalised source text (first 120 chars)."""
    try:
        t = ast.unparse(node)
    except Exception:
        t = type(node).__name__
    t = " ".join(t.split())
    return t[:120]


def assigns_self_attr(node, attr):
    """If node (an ast stmt) assigns self.<attr>, return the value expr else None."""
    if isinstance(node, ast.Assign):
        for t in node.targets:
            if is_self_attr(t, attr):
                return node.value
    if isinstance(node, ast.AnnAssign) and node.value is not None and is_self_attr(node.target, attr):
        return node.value
    return None


def find_assign_nodes(cfg, attr):
    out = []
    for n in cfg.stmt_nodes():
        if n.kind == "stmt":
            v = assigns_self_attr(n.ast, attr)
            if v is not None:
                out.append((n, v))
    return out


def const_of(ctx, fn, expr):
    res = norm.Resolver(ctx.program, fn.module, fn.cls)
    k = norm.key(expr, res)
    if k[0] == "c":
        return True, k[1]
    return False, None


def all_funcs_with_closures(fns):
    for f in fns:
        yield f
        yield from all_funcs_with_closures(f.nested_list())


def hierarchy_funcs(program, root_qual):
    """All methods (and closures) of classes whose MRO contains root class."""
    root = program.cls(root_qual)
    out = []
    for c in program.all_classes():
        if root in program.mro(c):
            out.extend(c.methods.values())
    return list(all_funcs_with_closures(out))


def is_test_module(modname):
    return ".test" in modname or modname.endswith(".test") or ".testutil" in modname


def enclosing_stmt_nodes_with(cfg, pred):
    return [n for n in cfg.stmt_nodes() if any(pred(c) for c in node_calls(n))]


def int_set(pred, lo, hi):
    return {v for v in range(lo, hi) if pred(v)}


def compile_predicate(expr, var, resolver, extra=None):
    """Compile a boolean expression over a single integer variable `var` (text) into a python callable.
    Supported: comparisons (incl. chains) with constants, in/not in constant collections, and/or/not.
    Raises AnalysisError for anything else."""
    extra = extra or {}

    def ev(e):
        if isinstance(e, ast.BoolOp):
            subs = [ev(v) for v in e.values]
            if isinstance(e.op, ast.And):
                return lambda x: all(s(x) for s in subs)
            return lambda x: any(s(x) for s in subs)
        if isinstance(e, ast.UnaryOp) and isinstance(e.op, ast.Not):
            s = ev(e.operand)
            return lambda x: not s(x)
        if isinstance(e, ast.Compare):
            terms = [e.left] + list(e.comparators)
            vals = [val(t) for t in terms]
            ops = e.ops

            def f(x):
                vs = [v(x) for v in vals]
                for i, op in enumerate(ops):
                    a, b = vs[i], vs[i + 1]
                    if isinstance(op, ast.Eq):
                        r = a == b
                    elif isinstance(op, ast.NotEq):
                        r = a != b
                    elif isinstance(op, ast.Lt):
                        r = a < b
                    elif isinstance(op, ast.LtE):
                        r = a <= b
                    elif isinstance(op, ast.Gt):
                        r = a > b
                    elif isinstance(op, ast.GtE):
                        r = a >= b
                    elif isinstance(op, ast.In):
                        r = a in b
                    elif isinstance(op, ast.NotIn):
                        r = a not in b
                    elif isinstance(op, ast.Is):
                        r = a is b
                    elif isinstance(op, ast.IsNot):
                        r = a is not b
                    else:
                        raise AnalysisError(f"unsupported comparison in predicate {ast.unparse(e)}")
                    if not r:
                        return False
                return True

            return f
        if isinstance(e, ast.Constant):
            return lambda x: bool(e.value)
        raise AnalysisError(f"unsupported predicate form: {ast.unparse(e)}")

    def val(t):
        if norm.text(t) == var:
            return lambda x: x
        if norm.text(t) in extra:
            c = extra[norm.text(t)]
            return lambda x: c
        k = norm.key(t, resolver)
        if k[0] == "c":
            c = k[1]
            return lambda x: c
        raise AnalysisError(f"predicate term {ast.unparse(t)} is neither `{var}` nor a constant")

    return ev(expr)


def eval_finite(program, fn, expr, env, n):
    """Value of `expr` (inside fn) on a finite domain of n cells: env maps names / attribute texts to numpy arrays.
    A local name outside env is replaced by its unique reaching definition (single assignment in fn, not in a loop).
    Returns a numpy array or raises AnalysisError. Nothing of the analysed program is executed."""
    import numpy as np
    from ..core.vec import Vec
    from ..core.flow import local_assignments
    res = norm.Resolver(program, fn.module, fn.cls)
    depth = [0]

    def attr_hook(text, node, mask):
        if text in env:
            return env[text]
        if isinstance(node, ast.Name):
            defs = local_assignments(fn, node.id)
            in_loop = any(isinstance(l, (ast.For, ast.While)) and any(isinstance(s, ast.Assign) and any(isinstance(t, ast.Name) and t.id == node.id for t in s.targets)
                                                                     for s in ast.walk(l)) for l in walk_no_defs(fn.node))
            if len(defs) == 1 and defs[0] is not None and not in_loop and depth[0] < 4:
                depth[0] += 1
                try:
                    return v.eval(defs[0], mask)
                finally:
                    depth[0] -= 1
        return NotImplemented

    v = Vec(n, res, attr_hook, lambda call, mask, interp: NotImplemented)
    out = v.eval(expr, np.ones(n, dtype=bool))
    return v.arr(out) if not isinstance(out, np.ndarray) else out


def initiated_by_us(facts, fn):
    """Facts imply "this side initiated the close" inside sendCloseFrame: `self.closedByMe` is true, or -- equivalently, given the
    function's own `self.closedByMe = not isReply` -- the isReply parameter is false."""
    facts = facts or ()
    if ("truth", "self.closedByMe", None, True) in facts:
        return True
    defs = [st for st in walk_no_defs(fn.node) if isinstance(st, ast.Assign) and any(is_self_attr(t, "closedByMe") for t in st.targets)]
    same = len(defs) == 1 and isinstance(defs[0].value, ast.UnaryOp) and isinstance(defs[0].value.op, ast.Not) and norm.text(defs[0].value.operand) == "isReply"
    if same and ("truth", "isReply", None, False) in facts:
        return True
    # a local bound to the same value in the same statement (`self.closedByMe = mine = not isReply`) or read from the attribute once (`mine = self.closedByMe`)
    stores = {}
    for st in walk_no_defs(fn.node):
        if isinstance(st, ast.Name) and isinstance(st.ctx, ast.Store):
            stores[st.id] = stores.get(st.id, 0) + 1
    aliases = {t.id for d in defs for t in d.targets if isinstance(t, ast.Name)} if len(defs) == 1 else set()
    aliases |= {st.targets[0].id for st in walk_no_defs(fn.node) if isinstance(st, ast.Assign) and len(st.targets) == 1 and isinstance(st.targets[0], ast.Name)
                and is_self_attr(st.value, "closedByMe") and len(defs) == 1 and st.lineno > defs[0].lineno}
    return any(stores.get(a) == 1 and ("truth", a, None, True) in facts for a in aliases)


class _Subst(ast.NodeTransformer):
    def __init__(self, mapping):
        self.mapping = mapping

    def visit_Name(self, node):
        if isinstance(node.ctx, ast.Load) and node.id in self.mapping:
            import copy
            return copy.deepcopy(self.mapping[node.id])
        return node

    def _comp(self, node):
        bound = {y.id for g in node.generators for y in ast.walk(g.target) if isinstance(y, ast.Name)}
        saved = self.mapping
        self.mapping = {k: v for k, v in saved.items() if k not in bound}
        try:
            return self.generic_visit(node)
        finally:
            self.mapping = saved

    visit_ListComp = visit_SetComp = visit_DictComp = visit_GeneratorExp = _comp


def local_canon(fn):
    """name -> canonical definition expression (AST) for locals of fn that have exactly one plain assignment outside loops;
    definitions are expanded recursively, so the result only mentions parameters, attributes, constants and multi-def locals.
    Makes rules independent of how (and whether) intermediate values are named."""
    import copy
    counts, defs = {}, {}
    loop_targets = set()
    for st in walk_no_defs(fn.node):
        if isinstance(st, (ast.For, ast.AsyncFor, ast.While)):
            for x in ast.walk(st):
                if isinstance(x, ast.Assign):
                    for t in x.targets:
                        for y in ast.walk(t):
                            if isinstance(y, ast.Name):
                                loop_targets.add(y.id)
            if not isinstance(st, ast.While):
                for y in ast.walk(st.target):
                    if isinstance(y, ast.Name):
                        loop_targets.add(y.id)
        tg = []
        if isinstance(st, ast.Assign):
            tg = st.targets
        elif isinstance(st, (ast.AugAssign, ast.AnnAssign)):
            tg = [st.target]
        elif isinstance(st, (ast.With, ast.AsyncWith)):
            tg = [i.optional_vars for i in st.items if i.optional_vars is not None]
        elif isinstance(st, ast.ExceptHandler) and st.name:
            counts[st.name] = counts.get(st.name, 0) + 2
        for t in tg:
            for y in ast.walk(t):
                if isinstance(y, ast.Name) and isinstance(y.ctx, (ast.Store, ast.Del)):
                    counts[y.id] = counts.get(y.id, 0) + (1 if isinstance(st, ast.Assign) and isinstance(t, ast.Name) else 2)
        if isinstance(st, ast.Assign) and len(st.targets) == 1 and isinstance(st.targets[0], ast.Name):
            defs[st.targets[0].id] = st
        # parallel assignment of independent values: `a, b = X, Y` (no target read on the right) defines a and b like two plain assignments
        if isinstance(st, ast.Assign) and len(st.targets) == 1 and isinstance(st.targets[0], ast.Tuple) and isinstance(st.value, ast.Tuple) \
                and len(st.targets[0].elts) == len(st.value.elts) and all(isinstance(t_, ast.Name) for t_ in st.targets[0].elts):
            names_ = {t_.id for t_ in st.targets[0].elts}
            if not any(isinstance(x, ast.Name) and x.id in names_ for v_ in st.value.elts for x in ast.walk(v_)):
                for t_, v_ in zip(st.targets[0].elts, st.value.elts):
                    fake = ast.copy_location(ast.Assign(targets=[t_], value=v_), st)
                    defs[t_.id] = fake
                    counts[t_.id] = counts.get(t_.id, 0) - 1  # counted 2 above for the tuple target
    params = set(fn.params()) | {a.arg for a in fn.node.args.kwonlyargs}
    simple = {n: st for n, st in defs.items() if counts.get(n) == 1 and n not in loop_targets and n not in params
              and not any(isinstance(x, (ast.Lambda, ast.Await, ast.Yield, ast.NamedExpr)) for x in ast.walk(st.value))}
    out = {}
    for n in sorted(simple, key=lambda k: simple[k].lineno):
        e = copy.deepcopy(simple[n].value)
        e = _Subst({k: v for k, v in out.items() if k != n}).visit(ast.Expression(body=e)).body
        out[n] = e
    return out


def canon_text(fn, expr, canon=None):
    """Text of `expr` with single-definition locals expanded."""
    import copy
    canon = canon if canon is not None else local_canon(fn)
    e = _Subst(canon).visit(ast.Expression(body=copy.deepcopy(expr))).body
    return norm.text(e) or " ".join(ast.unparse(e).split())


def name_for(fn, canonical, canon=None):
    """The local whose canonical definition text is `canonical` (or `canonical` itself when the code does not name the value)."""
    canon = canon if canon is not None else local_canon(fn)
    for n, e in canon.items():
        t = norm.text(e) or " ".join(ast.unparse(e).split())
        if t == canonical:
            return n
    return canonical


def module_level_names(fn):
    """names the function reads that are module-level functions / classes / imports (never assigned in the function): opaque objects for Tiny"""
    from ..core.tiny import Sym
    stored = {x.id for x in ast.walk(fn.node) if isinstance(x, ast.Name) and isinstance(x.ctx, (ast.Store, ast.Del))} | set(fn.params())
    stored |= {x.name for x in ast.walk(fn.node) if isinstance(x, (ast.FunctionDef, ast.AsyncFunctionDef, ast.ClassDef)) and x is not fn.node}
    m = fn.module
    out = {}
    for x in ast.walk(fn.node):
        if isinstance(x, ast.Name) and isinstance(x.ctx, ast.Load) and x.id not in stored and (x.id in m.funcs or x.id in m.classes or x.id in m.imports):
            out[x.id] = Sym(f"<{x.id}>")
    return out


def rule_decorated_object(ctx, rule_id, api, helper, selector, default_by_type):
    """ApplicationSession.subscribe(obj) / register(obj): every decorated method of the object is handed to the request helper with ITS OWN
    options (the pattern's, else the ones given to the call, else -- subscribe only -- a default chosen by the pattern's URI type), its own
    URI and type-check flag, in member order.  Decided cell-wise over objects with several decorated members and every mix of
    own/absent options; a value computed for one member must not reach another one."""
    import itertools
    from ..core.tiny import Tiny, Sym, TinyRaise
    from ..core.index import AnalysisError
    ctx.rule(rule_id)
    fn = ctx.program.func(f"{APPSESSION}.{api}")
    ctx.analysed(fn)
    prm = fn.params()
    body = [x for x in fn.node.body if not (isinstance(x, ast.Expr) and isinstance(x.value, ast.Constant))]
    probs, cells = [], 0
    WILD, EXACT = "uri-type-wildcard", "uri-type-exact"
    try:
        for given, layout in itertools.product((None, "given"), itertools.product((None, "own"), repeat=4)):
            for types_ in ((EXACT, WILD, EXACT, WILD), (WILD, EXACT, EXACT, EXACT)):
                cells += 1
                calls = []
                session_opts = Sym("options-given-to-the-call") if given else None
                pats, want = [], []
                obj = Sym("decorated-object")
                members = []
                for mi in range(2):
                    proc = Sym(f"method-{mi}")
                    plist = []
                    for pi in range(2):
                        k = mi * 2 + pi
                        own = Sym(f"options-of-pattern-{k}") if layout[k] else None
                        pat = Sym(f"pattern-{k}", methods={selector: (lambda: True), "uri": (lambda k=k: f"com.uri.{k}"),
                                                            "is_handler": (lambda: selector == "is_handler"), "is_endpoint": (lambda: selector == "is_endpoint")},
                                  options=own, uri_type=types_[k], _check_types=Sym(f"check-types-{k}"))
                        plist.append(pat)
                        exp = own if own is not None else session_opts
                        if exp is None and default_by_type:
                            exp = ("default", "wildcard" if types_[k] == WILD else "exact")
                        want.append((obj, proc, f"com.uri.{k}", exp, pat.attrs["_check_types"]))
                    # a pattern of the other kind must be skipped
                    other = Sym(f"foreign-pattern-{mi}", methods={"is_handler": (lambda: False), "is_endpoint": (lambda: False), "uri": (lambda: "com.foreign")},
                                options=None, uri_type=EXACT, _check_types=None)
                    proc.attrs["__dict__"] = {"_wampuris": plist[:1] + [other] + plist[1:]}
                    members.append([f"name{mi}", proc])
                plain = Sym("undecorated-method")
                plain.attrs["__dict__"] = {}
                members.insert(1, ["plain", plain])

                def default(f_, a_, k_=None):
                    if f_ == helper:
                        calls.append(tuple(a_))
                        return Sym(f"pending-{len(calls)}")
                    if f_ == "callable":
                        return False
                    if f_ == "inspect.getmembers":
                        return [list(m_) for m_ in members]
                    if f_.endswith("SubscribeOptions") or f_.endswith("RegisterOptions"):
                        return ("default", (k_ or {}).get("match"))
                    return Sym(f"<{f_}>")
                obj.attrs["__class__"] = Sym("class-of-the-object")
                env = dict(module_level_names(fn))
                env.update({"self": Sym("session"), "self._transport": Sym("transport"), prm[1]: obj, "uri.Pattern.URI_TYPE_WILDCARD": WILD, "uri.Pattern.URI_TYPE_EXACT": EXACT})
                for p_ in prm[2:]:
                    env[p_] = None
                # the options parameter: the one forwarded to the helper in the single-callable form
                env["options"] = session_opts if "options" in prm else None
                t = Tiny(env, default_call=default, opaque_globals=True, local_defs=lambda nm_: nm_ != helper)   # local helpers are followed, the observed request helper is not
                r = t.run(body)
                got = [c for c in calls]
                desc = f"options to the call {'given' if given else 'absent'}, own options of the four patterns {['own' if x else 'none' for x in layout]}, URI types {['wildcard' if x == WILD else 'exact' for x in types_]}"
                if r[0] not in ("return",):
                    probs.append(f"{desc}: {r[0]} {str(r[1])[:60]}")
                elif len(got) != len(want):
                    probs.append(f"{desc}: {len(got)} requests for 4 decorated patterns")
                else:
                    for i, (g_, w_) in enumerate(zip(got, want)):
                        if len(g_) != 5 or g_[0] is not w_[0] or g_[1] is not w_[1] or g_[2] != w_[2] or g_[4] is not w_[4]:
                            probs.append(f"{desc}: request {i} is for {g_[:3]}, expected {w_[:3]} with its own type-check flag")
                            break
                        same = (g_[3] is w_[3]) or (isinstance(w_[3], tuple) and g_[3] == w_[3])
                        if not same:
                            probs.append(f"{desc}: pattern {i} is requested with {g_[3]}, expected {w_[3]}")
                            break
        ctx.ob(f"{api}(obj): each decorated method is requested with its own URI, options and type-check flag, in member order [{cells} cells]", not probs,
               "; ".join(probs[:2]), fn.loc())
    except AnalysisError as e:
        raise AnalysisError(f"[{rule_id}] {api}() outside the modelled subset: {e}")


def inline_private(ctx, cls, exclude=()):
    """Tiny `inline_self` resolver: private helpers (`_name`) of the class hierarchy are evaluated in place, except the listed sinks/hooks
    (those stay observable calls answered by the rule's oracle)."""
    def resolve(name):
        if not name.startswith("_") or name.startswith("__") or name in exclude:
            return None
        m = ctx.program.lookup_method(cls, name)
        return m.node if m is not None else None
    return resolve


def expand_expr_helpers(ctx, fn):
    """FuncInfo of `fn` with calls to *expression helpers* replaced by the expression they return: `self._h(a, b)` where `_h` is a
    private method of the class hierarchy whose body is a single `return <expr>` (parameters are substituted by the arguments, which
    must be plain reads so that nothing is duplicated or reordered). Positions of the inserted nodes are those of the call. Rules that
    look at what a method *does* (allocations, sends, stores) then see the same thing whether or not such a helper was extracted."""
    import copy
    from ..core.index import FuncInfo
    cls = fn.cls
    changed = []

    class T(ast.NodeTransformer):
        def visit_Call(self, node):
            node = self.generic_visit(node)
            f = node.func
            is_meth = cls is not None and isinstance(f, ast.Attribute) and isinstance(f.value, ast.Name) and f.value.id == "self" and f.attr.startswith("_") and not f.attr.startswith("__")
            is_modf = isinstance(f, ast.Name) and f.id.startswith("_") and not f.id.startswith("__") and f.id in getattr(fn.module, "funcs", {})
            if node.keywords or not (is_meth or is_modf):
                return node
            m = ctx.program.lookup_method(cls, f.attr) if is_meth else fn.module.funcs[f.id]   # a private method, or a private function of the module
            if m is None or m.node.decorator_list or not isinstance(m.node, ast.FunctionDef):
                return node
            a = m.node.args
            if a.vararg or a.kwarg or a.kwonlyargs or a.defaults or a.posonlyargs:
                return node
            body = [s for s in m.node.body if not (isinstance(s, ast.Expr) and isinstance(s.value, ast.Constant))]
            if not (body and isinstance(body[-1], ast.Return) and body[-1].value is not None):
                return node
            params = [x.arg for x in a.args][1:] if is_meth else [x.arg for x in a.args]
            # `tmp = <expr>` statements before the return (each local assigned once, read once afterwards) are folded into the returned expression
            ret = copy.deepcopy(body[-1].value)
            locs = {}
            for st_ in body[:-1]:
                if not (isinstance(st_, ast.Assign) and len(st_.targets) == 1 and isinstance(st_.targets[0], ast.Name) and st_.targets[0].id not in params
                        and st_.targets[0].id not in locs):
                    return node
                locs[st_.targets[0].id] = st_.value
            for nm_ in reversed(list(locs)):
                later = [ret] + [locs[k_] for k_ in list(locs)[list(locs).index(nm_) + 1:]]
                uses = sum(1 for e_ in later for x in ast.walk(e_) if isinstance(x, ast.Name) and x.id == nm_)
                pure_ = all(isinstance(x, (ast.Name, ast.Constant, ast.Subscript, ast.Slice, ast.Attribute, ast.BinOp, ast.UnaryOp, ast.Compare, ast.BoolOp, ast.Tuple, ast.expr_context,
                                           ast.operator, ast.unaryop, ast.cmpop, ast.boolop)) or
                            (isinstance(x, ast.Call) and isinstance(x.func, ast.Name) and x.func.id in ("ord", "len", "int", "bool", "abs", "min", "max") and not x.keywords)
                            for x in ast.walk(locs[nm_]))
                if uses != 1 and not (uses > 1 and pure_):   # a pure temporary may be read several times: repeating it changes nothing
                    return node
            for nm_ in reversed(list(locs)):
                ret = _Subst({nm_: locs[nm_]}).visit(ast.Expression(body=ret)).body
            if len(params) != len(node.args) or not all(_plain_read(x) or isinstance(x, ast.Constant) for x in node.args):
                return node
            if any(isinstance(x, (ast.Lambda, ast.Await, ast.Yield, ast.YieldFrom, ast.NamedExpr)) for x in ast.walk(ret)):
                return node
            e = _Subst(dict(zip(params, node.args))).visit(ast.Expression(body=copy.deepcopy(ret))).body
            for x in ast.walk(e):
                ast.copy_location(x, node)
            changed.append(f.attr if is_meth else f.id)
            return e

    new = T().visit(copy.deepcopy(fn.node))
    if not changed:
        return fn
    ast.fix_missing_locations(new)
    out = FuncInfo(fn.module, fn.cls, new, parent=fn.parent)
    out.variant = "expr-helpers-expanded"
    return out


def _scope_rename(node, ren, top=True):
    """rename the locals `ren` (old -> new) of a function: in its own scope and in nested scopes that read them as free variables (a nested scope
    that binds the name itself -- parameter, or assigned without nonlocal -- is left alone)"""
    for ch in ast.iter_child_nodes(node):
        if isinstance(ch, (ast.FunctionDef, ast.AsyncFunctionDef, ast.Lambda)):
            a = ch.args
            bound = {x.arg for x in a.posonlyargs + a.args + a.kwonlyargs} | ({a.vararg.arg} if a.vararg else set()) | ({a.kwarg.arg} if a.kwarg else set())
            if not isinstance(ch, ast.Lambda):
                nl = {n_ for x in walk_no_defs(ch) if isinstance(x, (ast.Nonlocal, ast.Global)) for n_ in x.names}
                bound |= {x.id for x in walk_no_defs(ch) if isinstance(x, ast.Name) and isinstance(x.ctx, (ast.Store, ast.Del))} - nl
            sub = {k: v for k, v in ren.items() if k not in bound}
            # defaults / decorators are evaluated in the enclosing scope
            for d_ in list(a.defaults) + [x for x in a.kw_defaults if x is not None] + list(getattr(ch, "decorator_list", [])):
                _scope_rename(ast.Expression(body=d_), ren, False)
            if sub:
                for b_ in (ch.body if isinstance(ch.body, list) else [ch.body]):
                    _scope_rename(ast.Module(body=[b_], type_ignores=[]) if isinstance(b_, ast.stmt) else ast.Expression(body=b_), sub, False)
            continue
        if isinstance(ch, ast.ClassDef):
            continue
        if isinstance(ch, ast.Name) and ch.id in ren:
            ch.id = ren[ch.id]
        elif isinstance(ch, ast.ExceptHandler) and ch.name in ren:
            ch.name = ren[ch.name]
        elif isinstance(ch, (ast.Nonlocal, ast.Global)):
            ch.names = [ren.get(n_, n_) for n_ in ch.names]
        _scope_rename(ch, ren, False)


def recover_names(ctx, fn, roles):
    """Rules read a few locals of long functions by the name the code gives them today.  So that a rename is not mistaken for a change of behaviour, the
    local playing a ROLE is identified by what it is computed from and renamed back to the canonical name before the rules look:
      roles = [(canonical, kind, pred)] with kind "def": pred(value expr) over plain assignments `name = value`; "for": pred(iterable) over `for name in it`;
      "use": pred(function node) -> set of names.
    Nothing is renamed when the role has no or more than one candidate, or the canonical name is already taken by another variable (the rules then see
    the code as it is and judge it as before).  Parameters are never renamed."""
    import copy
    node = fn.node
    a = node.args
    params = {x.arg for x in a.posonlyargs + a.args + a.kwonlyargs} | ({a.vararg.arg} if a.vararg else set()) | ({a.kwarg.arg} if a.kwarg else set())
    own_names = {x.id for x in walk_no_defs(node) if isinstance(x, ast.Name)} | {x.name for x in walk_no_defs(node, include_defs=True) if hasattr(x, "name") and isinstance(x.name, str)}
    ren = {}
    for canonical, kind, pred in roles:
        cands = set()
        if kind == "def":
            for st in walk_no_defs(node):
                if isinstance(st, ast.Assign) and len(st.targets) == 1 and isinstance(st.targets[0], ast.Name) and pred(st.value):
                    cands.add(st.targets[0].id)
                elif isinstance(st, ast.AnnAssign) and isinstance(st.target, ast.Name) and st.value is not None and pred(st.value):
                    cands.add(st.target.id)
        elif kind == "for":
            for st in walk_no_defs(node):
                if isinstance(st, (ast.For, ast.AsyncFor)) and isinstance(st.target, ast.Name) and pred(st.iter):
                    cands.add(st.target.id)
        elif kind == "use":
            cands = set(pred(node) or ())
        cands -= params
        if len(cands) != 1:
            continue
        old = next(iter(cands))
        if old == canonical or canonical in own_names or canonical in ren.values() or old in ren:
            continue
        ren[old] = canonical
    if not ren:
        return fn
    from ..core.index import FuncInfo
    new = copy.deepcopy(node)
    _scope_rename(new, ren)
    out = FuncInfo(fn.module, fn.cls, new, parent=fn.parent)
    out.variant = ((getattr(fn, "variant", "") or "") + "+names-recovered").lstrip("+")
    out.recovered = dict(ren)
    return out


def deep_calls(ctx, cls, calls, depth=2):
    """The given Call nodes plus -- for every `self._helper(...)` among them that resolves to a private method of the class hierarchy -- the calls in
    that helper's body (recursively, bounded). Rules that ask "does this path send X" then see the send whether or not it was moved into a helper."""
    out = []
    for c in calls:
        out.append(c)
        if depth > 0 and isinstance(c.func, ast.Attribute) and isinstance(c.func.value, ast.Name) and c.func.value.id == "self" and c.func.attr.startswith("_") \
                and not c.func.attr.startswith("__") and cls is not None:
            h = ctx.program.lookup_method(cls, c.func.attr)
            if h is not None:
                from ..core.index import calls_in as _ci
                out.extend(deep_calls(ctx, cls, list(_ci(h.node)), depth - 1))
    return out


def rule_default_options(ctx, rule_id, table, why):
    """Defaults of the protocol options a property leans on: `resetProtocolOptions` of the named factory is evaluated (sa.core.tiny) and the
    attribute it leaves behind compared with the value the property needs when the application configures nothing.
    table: (factory class name, option, wanted default)"""
    from ..core.tiny import Tiny, Sym
    if rule_id is not None:
        ctx.rule(rule_id)
    done = {}
    for cname, attr, want in table:
        q = f"autobahn.websocket.protocol.{cname}.resetProtocolOptions"
        if cname not in done:
            fn = ctx.program.func(q)
            ctx.analysed(fn)
            env = {"self": Sym("factory")}
            try:
                t = Tiny(env, default_call=lambda f_, a_, k_=None: Sym(f"<{f_}>"), opaque_globals=True, model_strings=True,
                         inline_self=inline_private(ctx, fn.cls))
                t.run([x for x in fn.node.body if not (isinstance(x, ast.Expr) and isinstance(x.value, ast.Constant))])
            except AnalysisError as e:
                raise AnalysisError(f"[{ctx.cur_rule}] {q} outside the modelled subset: {e}")
            done[cname] = (fn, t)
        fn, t = done[cname]
        got = t.env.get(f"self.{attr}", t.env["self"].attrs.get(attr, "<not set>"))
        ctx.ob(f"{cname} default {attr} = {want}", got is want or (got == want and type(got) is type(want)), f"default is {got!r}: {why}", fn.loc())


def rule_option_setters(ctx, rule_id, table, why):
    """An option handed to `setProtocolOptions` must become the factory's attribute of that name, whatever the other options currently are:
    evaluated (sa.core.tiny) cell-wise over (option, value), the value being a fresh one and the CURRENT value of every other option (a comparison
    against the wrong attribute hides exactly there).  Afterwards the attribute holds the value given and no other option changed.
    table: (factory class name, option, kind) with kind 'num' or 'bool'"""
    from ..core.tiny import Tiny, Sym
    if rule_id is not None:
        ctx.rule(rule_id)
    by_cls = {}
    for cname, opt, kind in table:
        by_cls.setdefault(cname, []).append((opt, kind))
    for cname, opts in by_cls.items():
        q = f"autobahn.websocket.protocol.{cname}.setProtocolOptions"
        fn = ctx.program.func(q)
        ctx.analysed(fn)
        params = fn.params()[1:]
        body = [x for x in fn.node.body if not (isinstance(x, ast.Expr) and isinstance(x.value, ast.Constant))]
        base = {p_: 20 + i for i, p_ in enumerate(params)}       # distinct current values, inside every range the setter asserts (12..125)
        a_ = fn.node.args
        dflt = {x.arg: None for x in a_.args}
        for x, d_ in zip(a_.args[len(a_.args) - len(a_.defaults):], a_.defaults):
            dflt[x.arg] = d_.value if isinstance(d_, ast.Constant) else None

        def evaluate(given_opt=None, given=None, current=None):
            env = {"self": Sym("factory"), "self.log": Sym("log")}
            for p_ in params:
                env[p_] = dflt.get(p_)
                env[f"self.{p_}"] = base[p_]
            if given_opt is not None:
                env[given_opt] = given
                env[f"self.{given_opt}"] = current
            try:
                t = Tiny(env, default_call=lambda f_, a__, k_=None: Sym(f"<{f_}>"), opaque_globals=True, model_strings=True, model_types=True,
                         inline_self=inline_private(ctx, fn.cls))
                r = t.run(body)
            except AnalysisError as e:
                raise AnalysisError(f"[{ctx.cur_rule}] {q} outside the modelled subset: {e}")
            return r, {p_: t.env.get(f"self.{p_}", t.env["self"].attrs.get(p_, "<not set>")) for p_ in params}
        r0, rest = evaluate()      # nothing given: what the call does anyway (an option with a non-None default is stored every time)
        ctx.require(r0[0] != "raise", f"{q}: raises {r0[1]} when called without options")
        for opt, kind in opts:
            ctx.require(opt in params, f"{q}: parameter {opt} not found")
            if kind == "bool":
                values = [(True, False), (False, True)]           # (given, current)
            else:
                values = [(7, base[opt])] + [(base[o_], base[opt]) for o_ in params if o_ != opt]
            probs = []
            for given, current in values:
                r, after = evaluate(opt, given, current)
                got = after[opt]
                others = [p_ for p_ in params if p_ != opt and after[p_] != rest[p_]]
                if r[0] == "raise":
                    probs.append(f"{opt}={given!r} (current {current!r}): raises {r[1]}")
                elif not (got == given and type(got) is type(given)):
                    probs.append(f"{opt}={given!r} while it is {current!r}" + (f" and {[o_ for o_ in params if o_ != opt and base[o_] == given][:1]} is {given!r}" if kind != 'bool' else "")
                                 + f": the factory keeps {got!r}")
                elif others:
                    probs.append(f"{opt}={given!r}: also changes {others}")
            ctx.ob(f"{cname}.setProtocolOptions({opt}=v) makes v the factory's {opt}, whatever the other options are [{len(values)} cells]", not probs,
                   "; ".join(probs[:2]) + f": {why}", fn.loc())


def class_consts(ctx, cls):
    """class-level constants of `cls` as values: literals, and tables (dict / tuple / list displays) built from them -- evaluated on the model"""
    from ..core.tiny import Tiny
    out = {}
    assigns = [s_ for s_ in cls.node.body if isinstance(s_, ast.Assign) and len(s_.targets) == 1 and isinstance(s_.targets[0], ast.Name)]
    for s_ in assigns:
        if isinstance(s_.value, ast.Constant) and isinstance(s_.value.value, (int, str, bytes, bool)):
            out[s_.targets[0].id] = s_.value.value
    for _ in range(2):
        for s_ in assigns:
            if s_.targets[0].id in out or not isinstance(s_.value, (ast.Dict, ast.Tuple, ast.List, ast.Set, ast.BinOp)):
                continue
            try:
                v = Tiny(dict(out), model_strings=False).ev(s_.value)
            except Exception:  # noqa: not derivable from the constants alone
                continue
            out[s_.targets[0].id] = v
    return out
