"""C12 - Per-message compression is lossless and negotiated soundly (negotiation / gating clauses only)."""
import ast

from ..core.index import AnalysisError, walk_no_defs, calls_in, call_name, kwarg
from ..core.cfg import node_calls
from ..core import norm
from .common import (WSP, get_analysis, is_self_attr, self_call, stmt_key, find_assign_nodes)

META = {
    "explanation": "Writer/reader table agreement for the extension parameter strings (get_extension_string vs parse, all four "
                   "PMCE modules), closure of every parse loop (duplicate -> raise, validated values only, unknown -> raise), "
                   "role mapping of server_*/client_* parameters in (de)compressor set-up and in the two factory methods, "
                   "offer/accept compatibility raises, sync-flush tail agreement, and RSV1 / doNotCompress gating on the send side.",
    "assumptions": ["losslessness of zlib/bz2/brotli/snappy streams and context takeover across messages is library state at run time: not decided",
                    "RSV1 handling on receive is decided by C02.1; client handshake extension handling by C07.2"],
}

MODS = {"deflate": "autobahn.websocket.compress_deflate", "bzip2": "autobahn.websocket.compress_bzip2",
        "snappy": "autobahn.websocket.compress_snappy", "brotli": "autobahn.websocket.compress_brotli"}
# wire parameter -> Offer ctor parameter (confirmed by reading; RFC 7692 section 7.1)
DEFLATE_OFFER_MAP = {"client_no_context_takeover": "accept_no_context_takeover", "client_max_window_bits": "accept_max_window_bits",
                     "server_no_context_takeover": "request_no_context_takeover", "server_max_window_bits": "request_max_window_bits"}


def _cls(ctx, modq, suffix):
    m = ctx.program.module(modq)
    for c in m.classes.values():
        if c.name.endswith(suffix) and c.name.startswith("PerMessage") and "Mixin" not in c.name and not c.name.endswith("Accept" + suffix):
            if suffix in ("Offer", "Response") and c.name.endswith("Accept"):
                continue
            return c
    raise AnalysisError(f"class *{suffix} not found in {modq}")


def parse_table(ctx, fn):
    """wire name -> {'locals': {local: [(value text, facts)]}} plus structure facts of the parse loop."""
    an = get_analysis(ctx)
    # the parameter's value: the local holding <params>[<name>][0], whatever it is called (renamed back to `val` for the rules below)
    from .common import recover_names
    PRM = fn.params()[1]
    fn = recover_names(ctx, fn, [("val", "def", lambda v: isinstance(v, ast.Subscript) and isinstance(v.value, ast.Subscript) and norm.text(v.value.value) == PRM
                                  and isinstance(v.slice, ast.Constant) and v.slice.value == 0)])
    g, mf, res = an.get(fn)
    loops = [n for n in g.stmt_nodes() if n.kind == "for" and norm.text(n.ast.iter) == fn.params()[1]]
    ctx.require(len(loops) == 1, f"{fn.qualname}: parameter loop not found")
    pv = norm.text(loops[0].ast.target)
    table = {}
    for n in g.stmt_nodes():
        if n.kind != "stmt" or not isinstance(n.ast, ast.Assign) or not isinstance(n.ast.targets[0], ast.Name):
            continue
        facts = mf.at(n)
        if facts is None:
            continue
        names = [f[2][1] for f in facts if f[0] == "eq" and f[1] == pv and f[2][0] == "c" and f[3]]
        if len(names) != 1:
            continue
        tgt = n.ast.targets[0].id
        if tgt == "val":
            continue
        table.setdefault(names[0], {}).setdefault(tgt, []).append((norm.text(n.ast.value), facts, n))
    return g, mf, res, loops[0], pv, table


def _header_parser_keeps_repeats(ctx):
    """The extension parsers reject a repeated parameter by looking at the length of the value list they are given; the header parser
    must therefore collect EVERY occurrence.  The parameter loop of _parseExtensionsHeader is evaluated on an extension with the
    parameters  k=v1; j=v2; k=v3; flag; flag  (opaque strings)."""
    from ..core.tiny import Tiny, Sym, TinyRaise
    fn = ctx.program.func(f"{WSP}._parseExtensionsHeader")
    ctx.analysed(fn)
    body = [x for x in fn.node.body if not (isinstance(x, ast.Expr) and isinstance(x.value, ast.Constant))]

    def text(name, parts=None, lower=None):
        me = Sym(name)
        me.methods.update({"strip": lambda *a: me, "lower": lambda: (lower if lower is not None else me), "split": lambda sep=None, *a: list(parts.get(sep, [me])) if parts else [me]})
        return me
    vals = {n: text(f"value-{n}") for n in ("v1", "v2", "v3")}
    params = [text("k=v1", {"=": [text("k", lower="k"), vals["v1"]]}), text("j=v2", {"=": [text("j", lower="j"), vals["v2"]]}),
              text("k=v3", {"=": [text("k", lower="k"), vals["v3"]]}), text("flag", {"=": [text("flag", lower="flag")]}), text("flag", {"=": [text("flag", lower="flag")]})]
    ext0 = text("permessage-deflate", lower="permessage-deflate")
    one = text("one extension", {";": [ext0] + params})
    header = text("header", {",": [one]})

    def default(f_, a_, k_=None):
        if f_ == "str" and len(a_) == 1:
            return a_[0]
        if f_.endswith(".join") and len(a_) == 1 and isinstance(a_[0], list) and len(a_[0]) == 1:
            return a_[0][0]
        raise AnalysisError(f"call {f_} in _parseExtensionsHeader is not modelled")
    prm = fn.params()
    env = {"self": Sym("protocol"), prm[1]: header}
    for extra in prm[2:]:
        env[extra] = False  # removeQuotes off: quote stripping works on the characters of a value, outside this model
    try:
        t = Tiny(env, default_call=default)
        r = t.run(body)
    except AnalysisError as e:
        raise AnalysisError(f"[C12.2-parse-closure] _parseExtensionsHeader outside the modelled subset: {e}")
    ok, why = False, f"{r[0]} {str(r[1])[:120]}"
    if r[0] == "return" and isinstance(r[1], list) and len(r[1]) == 1 and isinstance(r[1][0], (list, tuple)) and len(r[1][0]) == 2 and isinstance(r[1][0][1], dict):
        got = r[1][0][1]
        want = {"k": [vals["v1"], vals["v3"]], "j": [vals["v2"]], "flag": [True, True]}
        ok = set(got) == set(want) and all(len(got[k_]) == len(want[k_]) and all(a_ is b_ or a_ == b_ for a_, b_ in zip(got[k_], want[k_])) for k_ in want)
        why = f"parameters `k=v1; j=v2; k=v3; flag; flag` are handed on as {got}"
    ctx.ob("the extensions header parser hands every occurrence of a repeated parameter to the extension parsers (value lists in order)", ok, why, fn.loc())


def rule_parse_closure(ctx):
    ctx.rule("C12.2-parse-closure")
    an = get_analysis(ctx)
    _header_parser_keeps_repeats(ctx)
    count = 0
    for ext, modq in MODS.items():
        for kind in ("Offer", "Response"):
            c = _cls(ctx, modq, kind)
            fn = c.methods.get("parse")
            ctx.require(fn is not None, f"{c.qualname}.parse missing")
            ctx.analysed(fn)
            g, mf, res, loop, pv, table = parse_table(ctx, fn)
            count += 1
            # duplicate parameter -> raise, before anything else in the loop body
            dup = [n for n in g.stmt_nodes() if n.kind == "test" and ("lt", ("c", 1), ("e", f"len({fn.params()[1]}[{pv}])"), True) in norm.atoms(n.ast, True, res)]
            ok = len(dup) == 1 and all(m.kind == "stmt" and isinstance(m.ast, ast.Raise) for m, lab in dup[0].succ if lab and lab[0] == "T")
            vals = [n for n in g.stmt_nodes() if n.kind == "stmt" and isinstance(n.ast, ast.Assign) and norm.text(n.ast.targets[0]) == "val" and
                    norm.text(n.ast.value) == f"{fn.params()[1]}[{pv}][0]"]
            ok = ok and len(vals) == 1 and g.always_preceded_by(vals[0], lambda x: x is dup[0])
            ctx.ob(f"{c.name}.parse: repeated parameter raises", bool(ok), "duplicate-parameter test missing or not first", fn.loc())
            # unknown parameter -> raise: the F edge of the last name test leads to a raise
            tests = [n for n in g.stmt_nodes() if n.kind == "test" and any(f[0] == "eq" and f[1] == pv and f[2][0] == "c" for f in norm.atoms(n.ast, True, res))]
            last_ok = False
            for t in tests:
                fs = [m for m, lab in t.succ if lab and lab[0] == "F"]
                if fs and all(m.kind == "stmt" and isinstance(m.ast, ast.Raise) for m in fs):
                    last_ok = True
            # and no path from the loop head through the body back to the loop head without an assignment under a name or a raise
            ctx.ob(f"{c.name}.parse: unknown parameter raises", last_ok and len(tests) == len(table) if table else last_ok,
                   f"final else of the parameter chain does not raise / {len(tests)} name tests vs {len(table)} handled names", fn.loc())
            # every stored value validated
            for name, locs in sorted(table.items()):
                for local, entries in locs.items():
                    for vt, facts, node in entries:
                        cons = f"{c.name}.parse: '{name}' -> {local} = {vt}"
                        if vt == "True":
                            okv = ("is", "val", ("c", True), True) in facts or any(f[0] == "in" and f[1] == "val" and f[3] for f in facts)
                            ctx.ob(cons, okv, "flag stored without checking that the parameter has no value (or a validated one)", fn.loc(node.ast))
                        elif vt == "val":
                            rng = [f for f in facts if f[0] == "in" and f[1] == "val" and f[2][0] == "c" and f[3]]
                            okv = bool(rng)
                            ctx.ob(cons, okv, "value stored without membership test in the permissible values", fn.loc(node.ast))
                            if okv and ext == "deflate":
                                ctx.ob(cons + " in 9..15", set(rng[0][2][1]) == set(range(9, 16)), f"permissible window sizes {sorted(rng[0][2][1])}", fn.loc(node.ast))
                            # int() conversion wrapped
                            conv = [n for n in g.stmt_nodes() if n.kind == "stmt" and isinstance(n.ast, ast.Assign) and norm.text(n.ast.targets[0]) == "val" and
                                    norm.text(n.ast.value) == "int(val)" and ("eq", pv, ("c", name), True) in (mf.at(n) or ())]
                            okc = len(conv) == 1 and any(lab and lab[0] == "exc" for m, lab in conv[0].succ) and g.always_preceded_by(node, lambda x: x is conv[0])
                            ctx.ob(cons + " [int() wrapped]", bool(okc), "int(val) not inside try/except -> raise", fn.loc(node.ast))
                        else:
                            ctx.ob(cons, False, "unrecognised value stored from the wire", fn.loc(node.ast))
    ctx.require(count == 8, f"expected 8 parse functions, analysed {count}")


def rule_param_tables(ctx):
    ctx.rule("C12.1-parameter-name-agreement")
    an = get_analysis(ctx)
    for ext, modq in MODS.items():
        offer, resp = _cls(ctx, modq, "Offer"), _cls(ctx, modq, "Response")
        oacc = ctx.program.module(modq).classes.get(offer.name + "Accept")
        ctx.require(oacc is not None, f"{offer.name}Accept missing")
        for writer, reader in ((offer, offer), (oacc, resp)):
            wfn = writer.methods.get("get_extension_string")
            rfn = reader.methods.get("parse")
            ctx.require(wfn is not None and rfn is not None, f"{writer.name}.get_extension_string / {reader.name}.parse missing")
            ctx.analysed(wfn, rfn)
            # writer table
            g, mf, res = an.get(wfn)
            wt = {}
            for n in g.stmt_nodes():
                if n.kind == "stmt" and isinstance(n.ast, ast.AugAssign) and isinstance(n.ast.op, ast.Add):
                    v = n.ast.value
                    lit, valexpr = None, None
                    if isinstance(v, ast.Constant) and isinstance(v.value, str):
                        lit = v.value
                    elif isinstance(v, ast.JoinedStr):
                        lit = "".join(p.value for p in v.values if isinstance(p, ast.Constant))
                        fv = [p for p in v.values if isinstance(p, ast.FormattedValue)]
                        valexpr = norm.text(fv[0].value) if len(fv) == 1 else "?"
                    if lit is None or not lit.startswith("; "):
                        continue
                    name = lit[2:].rstrip("=")
                    guards = [f for f in mf.at(n) if f[0] in ("truth", "eq")]
                    wt[name] = (valexpr, guards, n)
            g2, mf2, res2, loop, pv, rt = parse_table(ctx, rfn)
            ctx.ob(f"{ext}: {writer.name}.get_extension_string and {reader.name}.parse know the same parameter names", set(wt) == set(rt),
                   f"writer {sorted(wt)} vs reader {sorted(rt)}", wfn.loc())
            for name, (valexpr, guards, node) in wt.items():
                if name not in rt:
                    continue
                has_val_reader = any(vt == "val" for loc in rt[name].values() for vt, _, _ in loc)
                flag_only_reader = all(vt == "True" for loc in rt[name].values() for vt, _, _ in loc)
                if valexpr is None:
                    ctx.ob(f"{ext}: '{name}' written without value is read as a flag", not has_val_reader or ext == "deflate" and name == "client_max_window_bits",
                           "writer emits a bare flag but the reader requires a value", wfn.loc(node.ast))
                else:
                    ctx.ob(f"{ext}: '{name}' written with a value is read as a value", has_val_reader or not flag_only_reader,
                           "writer emits name=value but the reader only accepts a bare flag", wfn.loc(node.ast))
                    # guard/field agreement: the value is emitted iff it is set (!= 0), guard tests the same field
                    gtxt = {f[1] for f in guards}
                    ctx.ob(f"{ext}: '{name}' guard tests the emitted field", valexpr in gtxt,
                           f"value {valexpr} emitted under a guard on {sorted(gtxt)}", wfn.loc(node.ast))
    # deflate: wire name -> ctor parameter (through the local that the branch assigns and the positional ctor call)
    offer = _cls(ctx, MODS["deflate"], "Offer")
    for c, mapping in ((offer, DEFLATE_OFFER_MAP), (_cls(ctx, MODS["deflate"], "Response"), {k: k for k in DEFLATE_OFFER_MAP})):
        fn = c.methods["parse"]
        g, mf, res, loop, pv, table = parse_table(ctx, fn)
        ctor = [call for call in calls_in(fn.node) if isinstance(call.func, ast.Name) and call.func.id == "cls"]
        ctx.require(len(ctor) == 1 and not ctor[0].keywords, f"{c.name}.parse: positional cls(...) call not found")
        init = c.methods["__init__"]
        params = init.params()[1:]
        args = [norm.text(a) for a in ctor[0].args]
        ctx.ob(f"{c.name}.parse passes as many values as __init__ takes", len(args) == len(params), f"{len(args)} args vs params {params}", fn.loc(ctor[0]))
        for wire, want in mapping.items():
            locs = list(table.get(wire, {}))
            ok = len(locs) == 1 and locs[0] in args and args.index(locs[0]) < len(params) and params[args.index(locs[0])] == want
            ctx.ob(f"{c.name}.parse: wire '{wire}' reaches ctor parameter {want}", ok,
                   f"value parsed for '{wire}' is bound to {params[args.index(locs[0])] if locs and locs[0] in args and args.index(locs[0]) < len(params) else locs}", fn.loc(ctor[0]))
        # ctor stores each parameter in the attribute of the same name
        for p in params:
            st = [s for s in walk_no_defs(init.node) if isinstance(s, ast.Assign) and is_self_attr(s.targets[0], p)]
            ctx.ob(f"{c.name}.__init__: self.{p} = {p}", len(st) == 1 and norm.text(st[0].value) == p, "attribute stored from another parameter", init.loc())
    # writer attributes of the deflate Offer / OfferAccept
    g, mf, res = an.get(offer.methods["get_extension_string"])
    exp = {"client_no_context_takeover": ("truth", "self.accept_no_context_takeover"), "client_max_window_bits": ("truth", "self.accept_max_window_bits"),
           "server_no_context_takeover": ("truth", "self.request_no_context_takeover"), "server_max_window_bits": ("val", "self.request_max_window_bits")}
    _check_writer(ctx, offer.methods["get_extension_string"], exp, an)
    oacc = ctx.program.module(MODS["deflate"]).classes["PerMessageDeflateOfferAccept"]
    exp = {"server_no_context_takeover": ("truth", "self.offer.request_no_context_takeover"), "server_max_window_bits": ("val", "self.offer.request_max_window_bits"),
           "client_no_context_takeover": ("truth", "self.request_no_context_takeover"), "client_max_window_bits": ("val", "self.request_max_window_bits")}
    _check_writer(ctx, oacc.methods["get_extension_string"], exp, an)


def _check_writer(ctx, fn, exp, an):
    g, mf, res = an.get(fn)
    seen = {}
    for n in g.stmt_nodes():
        if n.kind == "stmt" and isinstance(n.ast, ast.AugAssign):
            v = n.ast.value
            lit = v.value if isinstance(v, ast.Constant) and isinstance(v.value, str) else \
                "".join(p.value for p in v.values if isinstance(p, ast.Constant)) if isinstance(v, ast.JoinedStr) else None
            if not lit or not lit.startswith("; "):
                continue
            name = lit[2:].rstrip("=")
            facts = mf.at(n)
            fv = [norm.text(p.value) for p in v.values if isinstance(p, ast.FormattedValue)] if isinstance(v, ast.JoinedStr) else []
            seen[name] = (facts, fv, n)
    for name, (kind, attr) in exp.items():
        if name not in seen:
            ctx.ob(f"{fn.qualname}: emits '{name}'", False, "parameter no longer emitted", fn.loc())
            continue
        facts, fv, n = seen[name]
        if kind == "truth":
            ctx.ob(f"{fn.qualname}: '{name}' emitted iff {attr}", ("truth", attr, None, True) in facts, f"guard is not `{attr}`", fn.loc(n.ast))
        else:
            ctx.ob(f"{fn.qualname}: '{name}={{{attr}}}' emitted iff it is non-zero", ("eq", attr, ("c", 0), False) in facts and fv == [attr],
                   f"value {fv} under facts not testing `{attr} != 0`", fn.loc(n.ast))


def rule_role_mapping(ctx):
    ctx.rule("C12.3-role-mapping")
    an = get_analysis(ctx)
    pm = ctx.program.module(MODS["deflate"]).classes["PerMessageDeflate"]
    # cell-wise over (role, existing (de)compressor, the four parameters): a fresh raw-deflate object with window -<W> is created exactly when
    # none exists or the governing no_context_takeover flag is set; W and the flag are those of the direction being (de)compressed
    from ..core.tiny import Tiny, Sym
    import itertools
    for fname, ctor, attr, own_when_server in (("start_compress_message", "zlib.compressobj", "_compressor", "server"),
                                               ("start_decompress_message", "zlib.decompressobj", "_decompressor", "client")):
        fn = pm.methods[fname]
        ctx.analysed(fn)
        body = [x for x in fn.node.body if not (isinstance(x, ast.Expr) and isinstance(x.value, ast.Constant))]
        problems = []
        try:
            for is_server, existing, s_nct, c_nct in itertools.product((True, False), (None, "old"), (True, False), (True, False)):
                old = Sym("existing") if existing else None
                made = []

                def default(f_, a_, k_=None):
                    if f_ == ctor:
                        made.append((list(a_), dict(k_ or {})))
                        return Sym("fresh")
                    return Sym(f"<{f_}>")
                env = {"self._is_server": is_server, f"self.{attr}": old, "self.server_no_context_takeover": s_nct, "self.client_no_context_takeover": c_nct,
                       "self.server_max_window_bits": 12, "self.client_max_window_bits": 10, "self.mem_level": 8, "self._decompressed_len": 0, "self._oversized": False,
                       "zlib.Z_DEFAULT_COMPRESSION": -1, "zlib.DEFLATED": 8}
                t = Tiny(env, default_call=default, inline_self=lambda name: (ctx.program.lookup_method(pm, name).node if ctx.program.lookup_method(pm, name) is not None else None))
                t.run(body)
                role = own_when_server if is_server else ("client" if own_when_server == "server" else "server")
                flag = s_nct if role == "server" else c_nct
                w = 12 if role == "server" else 10
                want_new = existing is None or flag
                cell = f"is_server={is_server}, existing={'yes' if existing else 'no'}, server_nct={s_nct}, client_nct={c_nct}"
                if (len(made) == 1) != want_new or len(made) > 1:
                    problems.append(f"{cell}: {'no ' if not made else ''}new object created, expected {'a new one' if want_new else 'the existing context to be kept'} "
                                    f"(governed by {role}_no_context_takeover)")
                elif made:
                    a_, k_ = made[0]
                    wb = k_.get("wbits", a_[2] if ctor.endswith(".compressobj") and len(a_) > 2 else (a_[0] if a_ and not ctor.endswith(".compressobj") else None))
                    if wb != -w:
                        problems.append(f"{cell}: window argument {wb}, expected -{role}_max_window_bits = {-w}")
                    if t.env.get(f"self.{attr}") is old:
                        problems.append(f"{cell}: the new object is not stored in self.{attr}")
            ctx.ob(f"{fname}: raw-deflate window and context reset follow the parameters of the direction being processed [32 cells]", not problems,
                   "; ".join(problems[:2]), fn.loc())
        except AnalysisError as e:
            raise AnalysisError(f"[C12.3-role-mapping] {fname} outside the modelled subset: {e}")
    # __init__: attribute X from parameter X -- evaluated (sa.core.tiny) with a distinct value per parameter (and 0 = "not negotiated" for the windows)
    init = pm.methods["__init__"]
    ctx.analysed(init)
    from ..core.tiny import Tiny, Sym
    try:
        dflt = ctx.program.class_const(pm, "DEFAULT_WINDOW_BITS")
    except KeyError:
        dflt = None
    names = init.params()[1:]
    for zero in (False, True):
        vals = {"server_no_context_takeover": Sym("snct"), "client_no_context_takeover": Sym("cnct"), "server_max_window_bits": 0 if zero else 12,
                "client_max_window_bits": 0 if zero else 10}
        env = {"self": Sym("pmd"), "self.DEFAULT_WINDOW_BITS": dflt, "self.DEFAULT_MEM_LEVEL": 8}
        for n_ in names:
            env[n_] = vals.get(n_, Sym(n_))
        for a_, d_ in zip(reversed(init.node.args.args), reversed(init.node.args.defaults)):
            if a_.arg not in vals and isinstance(d_, ast.Constant):
                env[a_.arg] = d_.value
        try:
            t = Tiny(env, default_call=lambda f_, a_, k_=None: Sym(f"<{f_}>"), opaque_globals=True)
            t.run([x for x in init.node.body if not (isinstance(x, ast.Expr) and isinstance(x.value, ast.Constant))])
        except AnalysisError as e:
            raise AnalysisError(f"[C12.3-role-mapping] PerMessageDeflate.__init__ outside the modelled subset: {e}")
        for p in ("server_no_context_takeover", "client_no_context_takeover", "server_max_window_bits", "client_max_window_bits"):
            got = t.env.get(f"self.{p}", t.env["self"].attrs.get(p))
            want = vals[p] if not (zero and p.endswith("window_bits")) else dflt
            if zero and not p.endswith("window_bits"):
                continue
            ctx.ob(f"PerMessageDeflate.__init__: self.{p} from parameter {p}" + (" (0 = not negotiated -> the default window)" if zero else ""), got is want or got == want,
                   f"attribute holds {got!r}, expected {want!r}: fed from another parameter", init.loc())
    params = init.params()[1:]
    expect = {
        "create_from_offer_accept": {"server_no_context_takeover": {"accept.no_context_takeover", "accept.offer.request_no_context_takeover"},
                                     "client_no_context_takeover": {"accept.request_no_context_takeover"},
                                     "server_max_window_bits": {"accept.window_bits", "accept.offer.request_max_window_bits"},
                                     "client_max_window_bits": {"accept.request_max_window_bits"}},
        "create_from_response_accept": {"server_no_context_takeover": {"accept.response.server_no_context_takeover"},
                                        "client_no_context_takeover": {"accept.no_context_takeover", "accept.response.client_no_context_takeover"},
                                        "server_max_window_bits": {"accept.response.server_max_window_bits"},
                                        "client_max_window_bits": {"accept.window_bits", "accept.response.client_max_window_bits"}},
    }
    for fname, table in expect.items():
        fn = pm.methods[fname]
        ctx.analysed(fn)
        ctor = [c for c in calls_in(fn.node) if isinstance(c.func, ast.Name) and c.func.id == "cls"]
        ctx.require(len(ctor) == 1, f"{fname}: cls(...) not found")
        c = ctor[0]
        ctx.ob(f"{fname}: first argument is is_server", norm.text(c.args[0]) == "is_server", "is_server not passed through", fn.loc(c))
        for pname, want in table.items():
            i = params.index(pname)
            a = c.args[i] if i < len(c.args) else None
            got = set()
            if a is not None:
                # through locals: every assignment of a local that feeds the argument contributes its reads
                from ..core.flow import local_assignments
                exprs, seen, todo = [], set(), [a]
                while todo:
                    e_ = todo.pop()
                    exprs.append(e_)
                    for y in ast.walk(e_):
                        if isinstance(y, ast.Name) and isinstance(y.ctx, ast.Load) and y.id not in seen and y.id not in ("accept", "is_server", "cls"):
                            seen.add(y.id)
                            todo.extend(v for v in local_assignments(fn, y.id) if v is not None)
                a = ast.Tuple(elts=exprs, ctx=ast.Load())
                # attribute chains are read through single-definition locals (`response = accept.response; response.x` is `accept.response.x`)
                from .common import local_canon, canon_text
                lc_ = local_canon(fn)
                texts = [canon_text(fn, y, lc_) or norm.text(y) for y in ast.walk(a) if isinstance(y, ast.Attribute) and isinstance(y.ctx, ast.Load)]
                for t in texts:
                    if t.startswith("accept.") and not any(t != o and o.startswith(t + ".") for o in texts):
                        got.add(t)
            ctx.ob(f"{fname}: {pname} built from {sorted(want)}", got == want, f"argument {i} reads {sorted(got)}", fn.loc(c))
            if isinstance(a, ast.IfExp):
                ok = norm.atoms(a.test, True) == [("is", norm.text(a.body), ("c", None), False)]
                ctx.ob(f"{fname}: {pname} override used only when it is not None", ok, f"override test {norm.text(a.test)}", fn.loc(c))


def rule_compat(ctx):
    ctx.rule("C12.4-offer-accept-compatibility")
    an = get_analysis(ctx)
    m = ctx.program.module(MODS["deflate"])
    wanted = {
        "PerMessageDeflateOfferAccept": [
            ("request client no_context_takeover only if the client accepts it", [("truth", "request_no_context_takeover", None, True), ("truth", "offer.accept_no_context_takeover", None, False)]),
            ("request client max_window_bits only if the client accepts it", [("eq", "request_max_window_bits", ("c", 0), False), ("truth", "offer.accept_max_window_bits", None, False)]),
            ("honour the client's server_no_context_takeover request", [("truth", "offer.request_no_context_takeover", None, True), ("truth", "no_context_takeover", None, False)]),
            ("never exceed the client's server_max_window_bits request", [("eq", "offer.request_max_window_bits", ("c", 0), False), ("lt", ("e", "offer.request_max_window_bits"), ("e", "window_bits"), True)]),
        ],
        "PerMessageDeflateResponseAccept": [
            ("honour the server's client_no_context_takeover request", [("truth", "response.client_no_context_takeover", None, True), ("truth", "no_context_takeover", None, False)]),
            ("never exceed the server's client_max_window_bits", [("eq", "response.client_max_window_bits", ("c", 0), False), ("lt", ("e", "response.client_max_window_bits"), ("e", "window_bits"), True)]),
        ],
    }
    for cname, obs in wanted.items():
        c = m.classes.get(cname)
        ctx.require(c is not None, f"{cname} missing")
        init = c.methods["__init__"]
        ctx.analysed(init)
        g, mf, res = an.get(init)
        raises = [n for n in g.stmt_nodes() if n.kind == "stmt" and isinstance(n.ast, ast.Raise)]
        for name, facts in obs:
            ok = any(all(f in (mf.at(r) or ()) for f in facts) for r in raises)
            ctx.ob(f"{cname}: must {name} (else raise)", ok, "incompatible accept parameters are no longer refused", init.loc())
        for p, consts in (("window_bits", set(range(9, 16))), ("request_max_window_bits", set(range(9, 16)))):
            if p not in init.params():
                continue
            ok = any(any(f[0] == "in" and f[1] == p and f[2][0] == "c" and set(f[2][1]) == consts and not f[3] for f in (mf.at(r) or ())) for r in raises)
            ctx.ob(f"{cname}: {p} outside 9..15 raises", ok, "permissible-value check missing", init.loc())
    mix = m.classes["PerMessageDeflateMixin"]
    ctx.ob("WINDOW_SIZE_PERMISSIBLE_VALUES == 9..15", ctx.program.class_const(mix, "WINDOW_SIZE_PERMISSIBLE_VALUES") == list(range(9, 16)), "changed", mix.loc())


def rule_tail(ctx):
    ctx.rule("C12.5-sync-flush-tail")
    pm = ctx.program.module(MODS["deflate"]).classes["PerMessageDeflate"]
    ec = pm.methods["end_compress_message"]
    ed = pm.methods["end_decompress_message"]
    ctx.analysed(ec, ed)
    fl = [c for c in calls_in(ec.node) if isinstance(c.func, ast.Attribute) and c.func.attr == "flush"]
    ctx.ob("end_compress_message flushes with Z_SYNC_FLUSH", len(fl) == 1 and [norm.text(a) for a in fl[0].args] == ["zlib.Z_SYNC_FLUSH"], "flush mode changed", ec.loc())
    # decided by abstract evaluation (sa.core.tiny): what end_compress_message returns for a flush result that ends in the sync-flush tail, and
    # what end_decompress_message feeds the inflater -- independent of temporaries and of where the tail constant is named
    from ..core.tiny import Tiny, Sym, _to_py
    flushed = b"deflated-block" + b"\x00\x00\xff\xff"
    fed = []
    n_strip, lit = None, None
    try:
        comp = Sym("compressor", methods={"flush": lambda *a_: flushed, "compress": lambda d_: d_})
        r = Tiny({"self": Sym("pmce"), "self._compressor": comp}, default_call=lambda f_, a_, k_=None: Sym(f"<{f_}>"), model_strings=True, opaque_globals=True).run(
            [x for x in ec.node.body if not (isinstance(x, ast.Expr) and isinstance(x.value, ast.Constant))])
        if r[0] == "return" and isinstance(_to_py(r[1]), bytes) and flushed.startswith(_to_py(r[1])):
            n_strip = len(flushed) - len(_to_py(r[1]))
        dec = Sym("decompressor", methods={"decompress": lambda d_, *a_: fed.append(_to_py(d_)) or b""})
        Tiny({"self": Sym("pmce"), "self._decompressor": dec, "self._oversized": False, "self.max_message_size": 0, "self._decompressed_len": 0},
             default_call=lambda f_, a_, k_=None: Sym(f"<{f_}>"), model_strings=True, opaque_globals=True).run(
            [x for x in ed.node.body if not (isinstance(x, ast.Expr) and isinstance(x.value, ast.Constant))])
        lit = fed[0] if len(fed) == 1 and isinstance(fed[0], bytes) else None
    except AnalysisError as e:
        raise AnalysisError(f"[C12.5-sync-flush-tail] end_compress_message / end_decompress_message outside the modelled subset: {e}")
    ctx.ob("sender strips exactly the octets the receiver re-appends", n_strip is not None and lit is not None and n_strip == len(lit),
           f"stripped {n_strip} octets, re-appended {lit!r}", ec.loc())
    ctx.ob("re-appended tail is the empty stored block 00 00 ff ff", lit == b"\x00\x00\xff\xff", f"tail {lit!r}", ed.loc())
    # ... and the flush that emits NOTHING (no octet was fed to the compressor since its last sync flush: an empty message sent without any frame, behind
    # another message, with context takeover): the payload plus the re-appended tail must still be a valid empty block, i.e. the payload is 0x00
    try:
        comp0 = Sym("compressor", methods={"flush": lambda *a_: b"", "compress": lambda d_: d_})
        r0 = Tiny({"self": Sym("pmce"), "self._compressor": comp0}, default_call=lambda f_, a_, k_=None: Sym(f"<{f_}>"), model_strings=True, opaque_globals=True).run(
            [x for x in ec.node.body if not (isinstance(x, ast.Expr) and isinstance(x.value, ast.Constant))])
        got0 = _to_py(r0[1]) if r0[0] == "return" else r0
    except AnalysisError as e:
        raise AnalysisError(f"[C12.5-sync-flush-tail] end_compress_message outside the modelled subset: {e}")
    import zlib as _z

    def inflates_empty(p_):
        try:
            return isinstance(p_, bytes) and lit is not None and _z.decompressobj(-15).decompress(p_ + lit) == b""
        except _z.error:
            return False
    ctx.ob("an empty message whose flush emits nothing still carries a valid empty deflate block (payload + re-appended tail inflates to nothing) [1 cell]", inflates_empty(got0),
           f"payload {got0!r} followed by {lit!r} is not a deflate stream: the receiver's inflater fails on this or on the next message", ec.loc())
    cd = pm.methods["compress_message_data"]
    ctx.ob("compress_message_data feeds the running compressor", any(norm.text(c.func) == "self._compressor.compress" and [norm.text(a) for a in c.args] == ["data"] for c in calls_in(cd.node)), "changed", cd.loc())


def _begin_message_cells(ctx):
    """Streaming API: beginMessage(doNotCompress) decides for the whole message whether it is compressed.  Cell-wise over (extension negotiated,
    doNotCompress, flag left over from the previous message): afterwards the message is marked compressed exactly when an extension is active
    and the caller did not opt out -- a stale flag of the previous message never survives -- and the compressor is started exactly then."""
    from ..core.tiny import Tiny, Sym
    from .common import inline_private
    import itertools
    wsp = ctx.program.cls(WSP)
    fn = wsp.methods["beginMessage"]
    ctx.analysed(fn)
    prm = fn.params()
    consts = {k_: ctx.program.class_const(wsp, k_) for k_ in ("STATE_OPEN", "SEND_STATE_GROUND", "SEND_STATE_MESSAGE_BEGIN", "MESSAGE_TYPE_TEXT", "MESSAGE_TYPE_BINARY")}
    body = [x for x in fn.node.body if not (isinstance(x, ast.Expr) and isinstance(x.value, ast.Constant))]
    probs = []
    n = 0
    try:
        for pmc, dnc, stale in itertools.product((True, False), (True, False), (True, False, "unset")):
            started = []
            ext = Sym("pmce", methods={"start_compress_message": lambda: started.append(1)}) if pmc else None
            env = {"self": Sym("protocol"), "self.state": consts["STATE_OPEN"], "self.send_state": consts["SEND_STATE_GROUND"], "self._perMessageCompress": ext,
                   prm[1]: False, prm[2]: dnc, "self.trafficStats": Sym("stats", outgoingWebSocketMessages=0), "WebSocketProtocol": Sym("class", **consts), "self.log": Sym("log")}
            env.update({f"WebSocketProtocol.{k_}": v_ for k_, v_ in consts.items()})
            if stale != "unset":
                env["self.send_compressed"] = stale
            t = Tiny(env, default_call=lambda f_, a_, k_=None: Sym(f"<{f_}>"), inline_self=inline_private(ctx, wsp), opaque_globals=True)
            r = t.run(body)
            n += 1
            tag = f"extension {'negotiated' if pmc else 'absent'}, doNotCompress={dnc}, flag of the previous message {stale}"
            if r[0] == "raise":
                probs.append(f"{tag}: raises {r[1]}")
                continue
            got = t.env.get("self.send_compressed", t.env["self"].attrs.get("send_compressed", "unset"))
            want = pmc and not dnc
            if got is not want:
                probs.append(f"{tag}: message marked compressed={got}, expected {want}")
            if bool(started) != want or len(started) > 1:
                probs.append(f"{tag}: compressor started {len(started)} time(s)")
    except AnalysisError as e:
        raise AnalysisError(f"[C12.6-rsv1-and-donotcompress-gating] beginMessage outside the modelled subset: {e}")
    ctx.ob(f"beginMessage: the message is compressed iff an extension is active and not doNotCompress, whatever the previous message was [{n} cells]",
           not probs, "; ".join(probs[:2]), fn.loc())


def rule_rsv1(ctx):
    ctx.rule("C12.6-rsv1-and-donotcompress-gating")
    _begin_message_cells(ctx)
    an = get_analysis(ctx)
    wsp = ctx.program.cls(WSP)
    sm = wsp.methods["sendMessage"]
    ctx.analysed(sm)
    g, mf, res = an.get(sm)
    # the compression decision: the local that is bound to one constant under the extension test and to another on the other side -- True / False,
    # or the RSV value 4 / 0 directly -- whatever it is called
    flags = {}
    PM_ON = ("is", "self._perMessageCompress", ("c", None), False)
    DNC_OFF = ("truth", "doNotCompress", None, False)
    for n in g.stmt_nodes():
        if n.kind == "stmt" and isinstance(n.ast, ast.Assign) and len(n.ast.targets) == 1 and isinstance(n.ast.targets[0], ast.Name) and isinstance(n.ast.value, ast.Constant) \
                and isinstance(n.ast.value.value, (bool, int)):
            flags.setdefault(n.ast.targets[0].id, []).append((n.ast.value.value, n))
    both = [k_ for k_, v_ in flags.items() if len({repr(x_) for x_, _ in v_}) == 2 and any(PM_ON in (mf.at(n_) or ()) for _, n_ in v_)]
    SC = both[0] if len(both) == 1 else "sendCompressed"
    sets = [n for n in g.stmt_nodes() if n.kind == "stmt" and isinstance(n.ast, ast.Assign) and norm.text(n.ast.targets[0]) == SC]
    on_vals = {repr(n.ast.value.value) for n in sets if isinstance(n.ast.value, ast.Constant) and PM_ON in (mf.at(n) or ()) and DNC_OFF in (mf.at(n) or ())}
    ok = len(sets) == 2 and len(on_vals) == 1 and on_vals <= {"True", "4"}
    for n in sets:
        t = isinstance(n.ast.value, ast.Constant) and repr(n.ast.value.value) in on_vals
        f = mf.at(n)
        if t:
            ok = ok and PM_ON in f and DNC_OFF in f
        else:
            ok = ok and not (PM_ON in f and DNC_OFF in f) and isinstance(n.ast.value, ast.Constant) and repr(n.ast.value.value) in ("False", "0")
    ctx.ob("sendMessage: compressed iff an extension is active and not doNotCompress", ok, "sendCompressed logic changed", sm.loc())
    comp = [(n, c) for n in g.stmt_nodes() for c in node_calls(n) if norm.text(c.func).startswith("self._perMessageCompress.")]
    ctx.ob("sendMessage: compressor used only on the compressed branch",
           bool(comp) and all(("truth", "doNotCompress", None, False) in mf.at(n) and ("is", "self._perMessageCompress", ("c", None), False) in mf.at(n) for n, c in comp),
           "compressor invoked although doNotCompress / no extension", sm.loc())
    order = [norm.text(c.func).split(".")[-1] for n, c in sorted(comp, key=lambda x: x[0].lineno)]
    ctx.ob("sendMessage: start -> compress -> end for each message", order == ["start_compress_message", "compress_message_data", "end_compress_message"], f"{order}", sm.loc())
    sp = wsp.methods["sendPreparedMessage"]
    g2, mf2, res2 = an.get(sp)
    raw = [(n, c) for n in g2.stmt_nodes() for c in node_calls(n) if self_call(c, "sendData")]
    ok = len(raw) == 1
    if ok:
        anyf = [f for f in mf2.at(raw[0][0]) if f[0] == "any"]
        ok = any({"self._perMessageCompress", "preparedMsg.doNotCompress"} <= set(norm.mentions(f)) for f in anyf)
    ctx.ob("sendPreparedMessage: pre-framed (uncompressed) octets only when no extension or doNotCompress", ok, "raw path condition changed", sp.loc())
    other = [(n, c) for n in g2.stmt_nodes() for c in node_calls(n) if self_call(c, "sendMessage")]
    ctx.ob("sendPreparedMessage: otherwise goes through sendMessage (which compresses)", len(other) == 1 and [norm.text(a) for a in other[0][1].args] == ["preparedMsg.payload", "preparedMsg.binary"], "changed", sp.loc())
    bm = wsp.methods["beginMessage"]
    g3, mf3, res3 = an.get(bm)
    sets = find_assign_nodes(g3, "send_compressed")
    ok = len(sets) == 2
    for n, v in sets:
        t = norm.text(v) == "True"
        f = mf3.at(n)
        both = ("is", "self._perMessageCompress", ("c", None), False) in f and ("truth", "doNotCompress", None, False) in f
        ok = ok and (t == both)
    ctx.ob("beginMessage: send_compressed iff extension active and not doNotCompress", ok, "changed", bm.loc())
    # receive side: decompress only for messages whose first frame had RSV1 under an active extension
    fb = wsp.methods["onFrameBegin"]
    g4, mf4, res4 = an.get(fb)
    # the flag as a term, evaluated over (extension active) x (RSV1 on this frame): independent of how the assignment is written
    from ..core.terms import TermEval, eval_bool, show
    import itertools
    te4 = TermEval(ctx.program, fb, inline=lambda c, f: None).run()
    flag = te4.env.get("self._isMessageCompressed")
    SELF = ("p", "self")
    PMC = ("attr", SELF, "_perMessageCompress")
    RSV = ("attr", ("attr", SELF, "current_frame"), "rsv")
    ok, why = flag is not None, "flag not assigned"
    OLD = ("attr", SELF, "_isMessageCompressed")
    OPC = ("attr", ("attr", SELF, "current_frame"), "opcode")
    INS = ("attr", SELF, "inside_message")
    if flag is not None:
        try:
            for control, inside, ext, rsv1, old in itertools.product((True, False), repeat=5):
                def atom(x, control=control, inside=inside, ext=ext, rsv1=rsv1, old=old):
                    if x == OLD:
                        return old
                    if x == INS:
                        return inside
                    if x[0] == "cmp" and OPC in x[2:] and x[1] in (">", ">=", "<", "<=") and any(y[0] == "c" and isinstance(y[1], int) for y in x[2:]):
                        cst = [y[1] for y in x[2:] if y[0] == "c"][0]
                        opc = 9 if control else 1
                        l_, r_ = (opc, cst) if x[2] == OPC else (cst, opc)
                        return {">": l_ > r_, ">=": l_ >= r_, "<": l_ < r_, "<=": l_ <= r_}[x[1]]
                    if x[0] == "cmp" and PMC in x[2:] and ("c", None) in x[2:]:
                        return (not ext) if x[1] in ("is", "==") else ext
                    if x == PMC:
                        return ext
                    if x[0] == "cmp" and RSV in x[2:] and ("c", 4) in x[2:] and x[1] in ("==", "!="):
                        return rsv1 if x[1] == "==" else not rsv1
                    return None
                want = (ext and rsv1) if (not control and not inside) else old
                got = eval_bool(flag, atom)
                if got != want:
                    ok = False
                    why = (f"{'control' if control else 'data'} frame, {'inside a' if inside else 'first frame of a'} message, extension {'active' if ext else 'absent'}, "
                           f"RSV1 {'set' if rsv1 else 'clear'}, flag before {old}: flag becomes {got}, expected {want}")
        except AnalysisError as e:
            ok, why = False, str(e)
    ctx.ob("onFrameBegin: message marked compressed iff extension active and RSV1 on its first frame; control and continuation frames leave the flag alone [32 cells]", ok, why, fb.loc())
    fd = wsp.methods["onFrameData"]
    g5, mf5, res5 = an.get(fd)
    dc = [(n, c) for n in g5.stmt_nodes() for c in node_calls(n) if norm.text(c.func) == "self._perMessageCompress.decompress_message_data"]
    ctx.ob("onFrameData: decompress iff the message is marked compressed", len(dc) == 1 and ("truth", "self._isMessageCompressed", None, True) in mf5.at(dc[0][0]), "changed", fd.loc())
    fe = wsp.methods["onFrameEnd"]
    g6, mf6, res6 = an.get(fe)
    ec = [(n, c) for n in g6.stmt_nodes() for c in node_calls(n) if norm.text(c.func) == "self._perMessageCompress.end_decompress_message"]
    ok = len(ec) == 1 and ("truth", "self._isMessageCompressed", None, True) in mf6.at(ec[0][0]) and ("truth", "self.current_frame.fin", None, True) in mf6.at(ec[0][0])
    ctx.ob("onFrameEnd: decompressor finished on the FIN frame of a compressed message", ok, "changed", fe.loc())


def rule_deflate_offer_cells(ctx):
    """What the server learns from an offer decides what it may answer (RFC 7692 7.1): `client_max_window_bits` may only be answered when the
    client offered it, `server_*` parameters are requests.  PerMessageDeflateOffer.parse is evaluated cell-wise (sa.core.tiny) on parameter
    sets; the constructor must see: accept_max_window_bits iff the client offered client_max_window_bits, request_* iff it asked for them."""
    from ..core.tiny import Tiny, Sym
    ctx.rule("C12.2-parse-closure")
    cls = ctx.program.module(MODS["deflate"]).classes["PerMessageDeflateOffer"]
    fn = cls.methods["parse"]
    ctx.analysed(fn)
    mixin = ctx.program.module(MODS["deflate"]).classes["PerMessageDeflateMixin"]
    wsv = ctx.program.class_const(mixin, "WINDOW_SIZE_PERMISSIBLE_VALUES")
    names = cls.methods["__init__"].params()[1:]
    body = [x for x in fn.node.body if not (isinstance(x, ast.Expr) and isinstance(x.value, ast.Constant))]
    cells = [({}, (False, False, 0)), ({"client_max_window_bits": [True]}, (True, False, 0)), ({"client_max_window_bits": ["10"]}, (True, False, 0)),
             ({"client_no_context_takeover": [True]}, (False, False, 0)), ({"server_max_window_bits": ["12"]}, (False, False, 12)),
             ({"server_no_context_takeover": [True]}, (False, True, 0)),
             ({"client_max_window_bits": [True], "server_no_context_takeover": [True], "server_max_window_bits": ["9"]}, (True, True, 9)),
             ({"client_max_window_bits": ["8"]}, None), ({"client_max_window_bits": ["x"]}, None), ({"server_max_window_bits": [True]}, None),
             ({"server_max_window_bits": ["16"]}, None), ({"client_no_context_takeover": ["1"]}, None), ({"server_no_context_takeover": ["0"]}, None),
             ({"client_max_window_bits": [True, True]}, None), ({"foo": [True]}, None)]
    probs = []
    try:
        for params, want in cells:
            made = []

            def ctor(*a_, **k_):
                b_ = dict(zip(names, a_))
                b_.update(k_)
                made.append(b_)
                return Sym("offer")
            env = {fn.params()[0]: Sym("class PerMessageDeflateOffer", methods={"__call__": ctor}, EXTENSION_NAME="permessage-deflate"),
                   fn.params()[1]: {k: list(v) for k, v in params.items()}, "PerMessageDeflateMixin.WINDOW_SIZE_PERMISSIBLE_VALUES": list(wsv),
                   "PerMessageDeflateMixin": Sym("class", WINDOW_SIZE_PERMISSIBLE_VALUES=list(wsv))}
            r = Tiny(env, default_call=lambda f_, a_, k_=None: Sym(f"<{f_}>"), model_strings=True, model_types=True, opaque_globals=True).run(body)
            tag = f"offer parameters {params}"
            if want is None:
                if r[0] != "raise":
                    probs.append(f"{tag}: accepted, expected to be refused")
                continue
            if r[0] != "return" or len(made) != 1:
                probs.append(f"{tag}: {r[0]} {str(r[1])[:50]}")
                continue
            got = (made[0].get("accept_max_window_bits"), made[0].get("request_no_context_takeover"), made[0].get("request_max_window_bits"))
            if got != want:
                probs.append(f"{tag}: the server learns (may answer client_max_window_bits, no_context_takeover requested, window bits requested) = {got}, expected {want}")
    except AnalysisError as e:
        raise AnalysisError(f"[C12.2-parse-closure] PerMessageDeflateOffer.parse outside the modelled subset: {e}")
    ctx.ob(f"deflate offer: client_max_window_bits may be answered iff offered; server_* requests are taken as given; malformed parameters refused [{len(cells)} cells]",
           not probs, "; ".join(probs[:2]), fn.loc())


def run(ctx):
    # "any sequence of messages ... is received identical": per-message state of the inflating side is reset at every message start
    from .c16 import rule_message_start
    rule_message_start(ctx, "C12.8-per-message-inflate-state")
    rule_deflate_offer_cells(ctx)
    rule_param_tables(ctx)
    rule_parse_closure(ctx)
    rule_role_mapping(ctx)
    rule_compat(ctx)
    rule_tail(ctx)
    rule_rsv1(ctx)
    # RSV1 marks the first frame of a compressed message only (RFC 7692 6.1): the fragmenting sender's frame roles
    from .c01 import rule_fragment_loops
    rule_fragment_loops(ctx, "C12.7-rsv1-on-first-fragment-only")
