"""C05 - WebSocket connections close exactly once, in order, and in bounded time.

Static typestate rules over WebSocketProtocol.state and the close bookkeeping. Decides the
shape-of-code clauses (guards, ownership, legality of close codes/reasons); not event interleavings.
"""
import ast

from ..core.index import AnalysisError, walk_no_defs, calls_in, call_name, kwarg
from ..core.cfg import node_calls
from ..core import norm
from ..core.flow import CallGraph, bound_arg, sources
from .common import (WSP, WSS, WSC, get_analysis, is_self_attr, self_call, stmt_key, find_assign_nodes,
                     hierarchy_funcs, compile_predicate, is_test_module)

META = {
    "explanation": "Typestate analysis of WebSocketProtocol.state: every writer of self.state is enumerated and its "
                   "permitted predecessor set proven from dominating guards (intra- and inter-procedural must-facts); "
                   "close-frame ownership, send-API state guards, close code/reason legality by backwards argument "
                   "tracing, _onClose ownership and closing-timer pairing. Decides those clauses on all paths of the "
                   "code, not the behaviour under all event interleavings.",
    "assumptions": ["callbacks handed to txaio/call_later carry no state knowledge (deferred edges)",
                    "calls on objects other than self do not modify self.state"],
}

STATE_NAMES = ("STATE_CLOSED", "STATE_CONNECTING", "STATE_CLOSING", "STATE_OPEN", "STATE_PROXY_CONNECTING")
SEND_APIS = ("sendMessage", "sendPing", "sendPong", "beginMessage", "beginMessageFrame", "sendMessageFrameData",
             "endMessage", "sendMessageFrame", "sendPreparedMessage")


def _states(ctx):
    c = ctx.program.cls(WSP)
    try:
        vals = {n: ctx.program.class_const(c, n) for n in STATE_NAMES}
    except KeyError as e:
        raise AnalysisError(f"state constant {e} missing on WebSocketProtocol")
    if len(set(vals.values())) != 5:
        raise AnalysisError("state constants are not pairwise distinct")
    return vals


def _cg(ctx):
    if not hasattr(ctx, "_cg"):
        ctx._cg = CallGraph(ctx.program)
    return ctx._cg


def state_vals_at(ctx, fn, node, dom, depth=0, _stack=()):
    """Possible values of self.state just before `node` in fn (sound over-approximation)."""
    an = get_analysis(ctx)
    entry_vals = entry_state_vals(ctx, fn, dom, depth, _stack)
    ef = ()
    if entry_vals != dom:
        ef = tuple(norm.atoms(ast.parse(f"self.state in {sorted(entry_vals)!r}", mode="eval").body, True))
    g, mf, res = an.get(fn, ef)
    # map node of the default-analysis cfg to this cfg by id (same construction order)
    n2 = g.nodes[node.id]
    facts = mf.at(n2)
    if facts is None:
        return set()  # unreachable
    return norm.values_allowed(facts, "self.state", dom)


def entry_state_vals(ctx, fn, dom, depth=0, _stack=()):
    """Possible values of self.state at entry of fn: union over resolved direct call sites;
    full domain for framework entry points, deferred callbacks and beyond the inlining bound (3)."""
    cg = _cg(ctx)
    if depth >= 3 or fn.qualname in _stack:
        return set(dom)
    if cg.deferred_refs(fn) or fn.parent is not None:
        return set(dom)
    callers = [e for e in cg.callers(fn)]
    if not callers:
        return set(dom)
    an = get_analysis(ctx)
    out = set()
    for (caller, call, _) in callers:
        g = an.cfg(caller)
        nodes = [n for n in g.stmt_nodes() if any(c is call for c in node_calls(n))]
        if not nodes:
            return set(dom)
        for n in nodes:
            out |= state_vals_at(ctx, caller, n, dom, depth + 1, _stack + (fn.qualname,))
        if out == dom:
            break
    return out


def rule_state_writers(ctx):
    ctx.rule("C05.1-state-writers")
    S = _states(ctx)
    dom = set(S.values())
    permitted = {
        S["STATE_OPEN"]: {S["STATE_CONNECTING"]},
        S["STATE_CLOSING"]: {S["STATE_OPEN"]},
        S["STATE_CLOSED"]: set(dom),
        S["STATE_CONNECTING"]: {S["STATE_PROXY_CONNECTING"]},
        S["STATE_PROXY_CONNECTING"]: set(),
    }
    name_of = {v: k for k, v in S.items()}
    an = get_analysis(ctx)
    funcs = [f for f in hierarchy_funcs(ctx.program, WSP) if not is_test_module(f.module.name)]
    count = 0
    for fn in funcs:
        g = None
        has = any(isinstance(n, ast.Attribute) and n.attr == "state" and isinstance(n.ctx, ast.Store) and is_self_attr(n)
                  for n in walk_no_defs(fn.node))
        aug = [n for n in walk_no_defs(fn.node) if isinstance(n, ast.AugAssign) and is_self_attr(n.target, "state")]
        for a in aug:
            ctx.ob(f"{fn.qualname}: {stmt_key(a)}", False, "augmented assignment to self.state", fn.loc(a))
        if not has:
            continue
        ctx.analysed(fn)
        g = an.cfg(fn)
        for n, v in find_assign_nodes(g, "state"):
            count += 1
            res = norm.Resolver(ctx.program, fn.module, fn.cls)
            k = norm.key(v, res)
            cons = f"{fn.qualname}: {stmt_key(n.ast)}"
            if k[0] != "c" or k[1] not in dom:
                ctx.ob(cons, False, "self.state assigned a value that is not one of the five STATE_* constants", fn.loc(n.ast))
                continue
            tgt = k[1]
            if fn.name == "_connectionMade" and fn.cls is not None and fn.cls.qualname == WSP and tgt in (
                    S["STATE_CONNECTING"], S["STATE_PROXY_CONNECTING"]):
                ctx.ob(cons, True)  # initial state of a fresh connection
                continue
            vals = state_vals_at(ctx, fn, n, dom)
            if fn.cls is not None and ctx.program.cls(WSS) in ctx.program.mro(fn.cls) and _server_never_proxy(ctx, S):
                # role fact: PROXY_CONNECTING is only ever entered under `not self.factory.isServer`
                vals = vals - {S["STATE_PROXY_CONNECTING"]}
            bad = vals - permitted[tgt] - {tgt}
            ctx.ob(cons, not bad,
                   f"state may move {sorted(name_of[b] for b in bad)} -> {name_of[tgt]} (no dominating guard; "
                   f"reached via a deferred callback or an unguarded call path)", fn.loc(n.ast))
    ctx.instances(count)
    ctx.floor("C05.1-state-writers", 6)


def _server_never_proxy(ctx, S):
    """True iff every writer of STATE_PROXY_CONNECTING is dominated by `not self.factory.isServer` and
    WebSocketServerFactory.isServer is the class constant True (so the state is unreachable for server roles)."""
    if hasattr(ctx, "_snp"):
        return ctx._snp
    an = get_analysis(ctx)
    ok = True
    n = 0
    for fn in [f for f in hierarchy_funcs(ctx.program, WSP) if not is_test_module(f.module.name)]:
        if not any(isinstance(x, ast.Attribute) and x.attr == "state" and isinstance(x.ctx, ast.Store) for x in walk_no_defs(fn.node)):
            continue
        g, mf, res = an.get(fn)
        for node, v in find_assign_nodes(g, "state"):
            if norm.key(v, res) == ("c", S["STATE_PROXY_CONNECTING"]):
                n += 1
                if ("truth", "self.factory.isServer", None, False) not in (mf.at(node) or ()):
                    ok = False
    try:
        fac = ctx.program.cls("autobahn.websocket.protocol.WebSocketServerFactory")
        ok = ok and ctx.program.class_const(fac, "isServer") is True
    except (KeyError, AnalysisError):
        ok = False
    ctx._snp = ok and n >= 1
    return ctx._snp


def rule_close_frame_owner(ctx):
    ctx.rule("C05.2-close-frame-owner")
    S = _states(ctx)
    an = get_analysis(ctx)
    cg = _cg(ctx)
    sites = []
    for f in cg.funcs:
        for c in calls_in(f.node):
            if isinstance(c.func, ast.Attribute) and c.func.attr == "sendFrame":
                op = kwarg(c, "opcode", 0)
                if op is None:
                    continue
                res = norm.Resolver(ctx.program, f.module, f.cls)
                k = norm.key(op, res)
                if k[0] != "c":
                    # opcode computed at run time: only sendMessage-like sites pass variables restricted to 0/1/2
                    if is_self_attr(op):
                        # an attribute of the protocol: every value ever stored into it (anywhere in the call graph) is a source
                        stores = [(g_, s_.value) for g_ in cg.funcs for s_ in ast.walk(g_.node) if isinstance(s_, ast.Assign) and any(is_self_attr(t_, op.attr) for t_ in s_.targets)]
                        srcs = [x for g_, v_ in stores for x in sources(cg, g_, v_)] if stores else [("opaque", f, op)]
                    else:
                        srcs = sources(cg, f, op)
                    vals = set()
                    for kind, sf, e in srcs:
                        kk = norm.key(e, norm.Resolver(ctx.program, sf.module, sf.cls)) if kind == "expr" else ("e", "")
                        vals.add(kk[1] if kk[0] == "c" else None)
                    if 8 in vals or None in vals:
                        sites.append((f, c, None))
                    continue
                if k[1] == 8:
                    sites.append((f, c, 8))
    ctx.require(any(s[2] == 8 for s in sites), "no sendFrame(opcode=8) site found at all")
    for f, c, op in sites:
        cons = f"{f.qualname}: {stmt_key(c)}"
        ctx.analysed(f)
        if op is None:
            ctx.ob(cons, False, "sendFrame with an opcode that may be 8 (close) outside sendCloseFrame", f.loc(c))
            continue
        if not (f.name == "sendCloseFrame" and f.cls is not None and f.cls.qualname == WSP):
            ctx.ob(cons, False, "close frame sent outside WebSocketProtocol.sendCloseFrame", f.loc(c))
            continue
        g, mf, _ = an.get(f)
        node = [n for n in g.stmt_nodes() if any(x is c for x in node_calls(n))][0]
        vals = norm.values_allowed(mf.at(node), "self.state", set(S.values()))
        ctx.ob(cons + " [guard]", vals == {S["STATE_OPEN"]},
               f"close frame can be sent in states {sorted(vals)} (must be OPEN only)", f.loc(c))

        def sets_closing(n):
            if n.kind != "stmt":
                return False
            for nn, v in [(n, None)]:
                from .common import assigns_self_attr
                vv = assigns_self_attr(n.ast, "state")
                if vv is None:
                    return False
                k = norm.key(vv, norm.Resolver(ctx.program, f.module, f.cls))
                return k == ("c", S["STATE_CLOSING"])

        ctx.ob(cons + " [then CLOSING]", g.always_followed_by(node, sets_closing),
               "after sending the close frame some path returns without state = CLOSING", f.loc(c))
        # nothing is written between the close frame and the state change
        between = g.reachable(node, avoid=sets_closing, start_exclusive=True)
        writes = [n for n in g.stmt_nodes() if n.id in between and n is not node and any(
            self_call(x, ("sendFrame", "sendData")) for x in node_calls(n)) and not sets_closing(n)]
        ctx.ob(cons + " [no write before CLOSING]", not writes,
               "another frame/data write between the close frame and state = CLOSING", f.loc(c))


def rule_send_guards(ctx):
    ctx.rule("C05.3-send-apis-require-open")
    S = _states(ctx)
    an = get_analysis(ctx)
    wsp = ctx.program.cls(WSP)
    sinks = ("sendFrame", "sendData")
    for name in SEND_APIS:
        fn = wsp.methods.get(name)
        ctx.require(fn is not None, f"send API {name} not found on WebSocketProtocol")
        ctx.analysed(fn)
        g, mf, _ = an.get(fn)
        found = 0
        for n in g.stmt_nodes():
            for c in node_calls(n):
                is_sink = self_call(c, sinks) or (call_name(c) or "").endswith("transport.write")
                if not is_sink:
                    continue
                found += 1
                facts = mf.at(n)
                if facts is None:
                    continue
                vals = norm.values_allowed(facts, "self.state", set(S.values()))
                ctx.ob(f"{fn.qualname}: {stmt_key(c)}", vals == {S["STATE_OPEN"]},
                       f"{name}() can write to the transport in states {sorted(vals)}: no dominating "
                       f"`state == STATE_OPEN` test", fn.loc(c))
        if found == 0:
            # no direct write: either delegates to other guarded APIs, or only moves the streaming-send automaton,
            # in which case every send_state store must itself be under state == OPEN
            deleg = [c for c in calls_in(fn.node) if self_call(c, SEND_APIS)]
            stores = find_assign_nodes(g, "send_state")
            for n, v in stores:
                vals = norm.values_allowed(mf.at(n) or (), "self.state", set(S.values()))
                ctx.ob(f"{fn.qualname}: {stmt_key(n.ast)}", vals == {S["STATE_OPEN"]},
                       f"{name}() advances the send automaton in states {sorted(vals)}", fn.loc(n.ast))
            ctx.ob(f"{fn.qualname}: delegates-or-automaton", bool(deleg) or bool(stores),
                   f"{name}() neither writes, delegates nor moves the send automaton (shape changed)", fn.loc())
    # every overriding definition in adapters must not bypass (no direct transport.write in overrides of the APIs)
    for f in hierarchy_funcs(ctx.program, WSP):
        if f.name in SEND_APIS and f.cls is not None and f.cls.qualname != WSP and not is_test_module(f.module.name):
            ctx.ob(f"{f.qualname}: override", False, "send API overridden outside WebSocketProtocol; guard not analysed", f.loc())


def _legal_wire_codes(ctx):
    wsp = ctx.program.cls(WSP)
    allowed = set(ctx.program.class_const(wsp, "CLOSE_STATUS_CODES_ALLOWED"))
    return allowed | set(range(3000, 5000))


def _validated_range(ctx, fn, var, legal):
    """Extension over 0..65535 of values of `var` that survive all raising tests in fn."""
    an = get_analysis(ctx)
    g, mf, res = an.get(fn)
    preds = []
    for n in g.stmt_nodes():
        if n.kind != "test":
            continue
        if norm.mentions_of(n.ast) - {var, "type", "int"} and var not in norm.mentions_of(n.ast):
            continue
        if var not in norm.mentions_of(n.ast):
            continue
        # does the True edge lead straight to a raise?
        for m, lab in n.succ:
            if lab and lab[0] == "T" and m.kind == "stmt" and isinstance(m.ast, ast.Raise):
                try:
                    preds.append(compile_predicate(n.ast, var, res, extra={f"type({var})": int, "int": int}))
                except AnalysisError:
                    pass
    if not preds:
        return None
    return {v for v in range(0, 65536) if not any(p(v) for p in preds)}


def rule_close_code_reason(ctx):
    ctx.rule("C05.4-close-code-reason-legal")
    cg = _cg(ctx)
    legal = _legal_wire_codes(ctx)
    wsp = ctx.program.cls(WSP)
    scf = wsp.methods.get("sendCloseFrame")
    ctx.require(scf is not None, "sendCloseFrame not found")
    callers = cg.callers(scf)
    # f(x=1, **kw) with kw a local that is only ever bound to dict displays with literal keys (one per branch) and never modified: the call stands for one
    # call per display -- judged as if each were written out
    expanded = []
    for (caller, call, x_) in callers:
        stars = [k for k in call.keywords if k.arg is None]
        if len(stars) == 1 and isinstance(stars[0].value, ast.Name):
            nm = stars[0].value.id
            binds = [st.value for st in walk_no_defs(caller.node) if isinstance(st, ast.Assign) and any(isinstance(t, ast.Name) and t.id == nm for t in st.targets)]
            touched = [y for y in walk_no_defs(caller.node) if (isinstance(y, ast.Subscript) and isinstance(y.ctx, (ast.Store, ast.Del)) and norm.text(y.value) == nm) or
                       (isinstance(y, ast.Call) and isinstance(y.func, ast.Attribute) and norm.text(y.func.value) == nm) or
                       (isinstance(y, ast.AugAssign) and norm.text(y.target) == nm)]
            if binds and not touched and all(isinstance(b, ast.Dict) and all(isinstance(k_, ast.Constant) and isinstance(k_.value, str) for k_ in b.keys) for b in binds):
                import copy
                for b in binds:
                    vc = copy.copy(call)
                    vc.keywords = [k for k in call.keywords if k.arg is not None] + [ast.keyword(arg=k_.value, value=v_) for k_, v_ in zip(b.keys, b.values)]
                    ast.copy_location(vc, b)
                    expanded.append((caller, vc, x_))
                continue
        expanded.append((caller, call, x_))
    callers = expanded
    ctx.require(len(callers) >= 4, f"only {len(callers)} call sites of sendCloseFrame found (expected >= 4)")
    n_code = 0
    for (caller, call, _) in callers:
        ctx.analysed(caller)
        kind, e = bound_arg(call, scf, "code")
        cons = f"{caller.qualname}: {stmt_key(call)}"
        if kind == "default" or e is None:
            ok, v = True, None
            if e is not None:
                k = norm.key(e, norm.Resolver(ctx.program, scf.module, scf.cls))
                ok = k == ("c", None)
            ctx.ob(cons + " [code]", ok, "default close code is not None", caller.loc(call))
        else:
            for skind, sf, se in sources(cg, caller, e):
                n_code += 1
                res = norm.Resolver(ctx.program, sf.module, sf.cls)
                k = norm.key(se, res) if skind == "expr" else ("e", "")
                scons = f"{cons} [code<-{sf.qualname}:{norm.text(se) if skind != 'opaque' else 'opaque'}]"
                if k[0] == "c":
                    ctx.ob(scons, k[1] is None or k[1] in legal,
                           f"close code {k[1]} must not appear on the wire", sf.loc(se))
                elif skind == "entry" and sf.name == "sendClose" and norm.text(se) == "code":
                    ext = _validated_range(ctx, sf, "code", legal)
                    ctx.ob(scons, ext is not None and ext <= legal and ext,
                           f"sendClose() lets through codes outside the legal set, e.g. "
                           f"{sorted((ext or set()) - legal)[:5]}" if ext is not None else "no validating test on code in sendClose()",
                           sf.loc(se))
                elif skind == "expr" and is_self_attr(se, "remoteCloseCode") and sf.name == "onCloseFrame":
                    ctx.ob(scons, _remote_code_validated(ctx, sf, legal),
                           "echoed remoteCloseCode is not restricted to codes that may appear on the wire", sf.loc(se))
                else:
                    ctx.ob(scons, False, f"close code comes from an unvalidated source ({skind})", sf.loc(se) if skind != "opaque" else sf.loc())
        # reason
        kind, e = bound_arg(call, scf, "reasonUtf8")
        if kind == "default" or e is None:
            ctx.ob(cons + " [reason]", True)
        else:
            for skind, sf, se in sources(cg, caller, e):
                scons = f"{cons} [reason<-{sf.qualname}:{norm.text(se) if skind != 'opaque' else 'opaque'}]"
                ok = False
                msg = f"close reason comes from a source that is not encode_truncate(x, n<=123) ({skind})"
                if skind == "expr":
                    if isinstance(se, ast.Constant) and se.value is None:
                        ok = True
                    elif isinstance(se, ast.Call) and (call_name(se) or "").split(".")[-1] == "encode_truncate":
                        lim = kwarg(se, "limit", 1)
                        k = norm.key(lim, norm.Resolver(ctx.program, sf.module, sf.cls)) if lim is not None else ("e", "")
                        ok = k[0] == "c" and isinstance(k[1], int) and 0 <= k[1] <= 123 and not any(
                            kw.arg in ("return_encoded", "encoding") for kw in se.keywords) and len(se.args) <= 2
                        msg = f"encode_truncate limit {k[1] if k[0] == 'c' else '?'} exceeds 123 octets (125 - 2 for the code) or non-default encoding"
                ctx.ob(scons, ok, msg, sf.loc(se) if skind != "opaque" else sf.loc())
    # encode_truncate itself: slice to limit, decode ignoring errors, re-encode
    et = ctx.program.func("autobahn.util.encode_truncate")
    ctx.analysed(et)
    src_ok = {"slice": False, "ignore": False, "reencode": False, "guard": False}
    # the encoded text: the local(s) assigned the result of an .encode() call (whatever they are called); `limit` is the second parameter
    enc_names = {t_.id for n in walk_no_defs(et.node) if isinstance(n, ast.Assign) and isinstance(n.value, ast.Call) and isinstance(n.value.func, ast.Attribute)
                 and n.value.func.attr == "encode" for t_ in n.targets if isinstance(t_, ast.Name)}
    lim_name = et.params()[1]
    for n in walk_no_defs(et.node):
        if isinstance(n, ast.Subscript) and isinstance(n.slice, ast.Slice) and n.slice.lower is None and \
                isinstance(n.slice.upper, ast.Name) and n.slice.upper.id == lim_name and n.slice.step is None:
            src_ok["slice"] = True
        if isinstance(n, ast.Call) and isinstance(n.func, ast.Attribute) and n.func.attr == "decode":
            args = [a.value for a in n.args if isinstance(a, ast.Constant)] + [k.value.value for k in n.keywords if isinstance(k.value, ast.Constant)]
            if "ignore" in args:
                src_ok["ignore"] = True
        if isinstance(n, ast.If):
            at = norm.atoms(n.test, True)
            if any(("lt", ("e", lim_name), ("e", f"len({nm_})"), True) in at for nm_ in enc_names):
                src_ok["guard"] = True
                for m in ast.walk(n):
                    if isinstance(m, ast.Assign) and isinstance(m.value, ast.Call) and isinstance(m.value.func, ast.Attribute) \
                            and m.value.func.attr == "encode":
                        src_ok["reencode"] = True
    for k2, v in src_ok.items():
        ctx.ob(f"autobahn.util.encode_truncate [{k2}]", v, f"encode_truncate lost its '{k2}' step "
               "(truncate to limit / decode ignoring a split code point / re-encode / only when too long)", et.loc())
    # _fail_connection's code parameter: all sources must be legal constants
    fc = wsp.methods.get("_fail_connection")
    ctx.require(fc is not None, "_fail_connection not found")
    ctx.floor("C05.4-close-code-reason-legal", 12)


def _remote_code_validated(ctx, fn, legal):
    """onCloseFrame: whatever status code the peer sent, the code remembered as remoteCloseCode (and echoed) is none or one that may appear
    on the wire.  Decided cell-wise (c02.close_code_cells): the method's validation prefix is evaluated for the codes around every literal it
    compares with, for the case that the failure sinks let processing continue."""
    from .c02 import close_code_cells
    try:
        domain, remembered = close_code_cells(ctx)
        bad = [(c, remembered(c)) for c in domain]
    except AnalysisError as e:
        raise AnalysisError(f"[C05.4-close-code-reason-legal] onCloseFrame outside the modelled subset: {e}")
    bad = [(c, r) for c, r in bad if not (r is None or (isinstance(r, int) and not isinstance(r, bool) and r in legal))]
    return not bad and len(domain) >= 30


def rule_onclose_owner(ctx):
    ctx.rule("C05.5-close-notification")
    cg = _cg(ctx)
    an = get_analysis(ctx)
    wsp = ctx.program.cls(WSP)
    sites = []
    for f in cg.funcs:
        if f.cls is None:
            continue
        if wsp not in ctx.program.mro(f.cls) and not any(wsp in ctx.program.mro(s) for s in ctx.program.subclasses(f.cls)):
            continue
        for c in calls_in(f.node):
            if self_call(c, "_onClose"):
                sites.append((f, c))
    ctx.require(len(sites) >= 2, "fewer than 2 _onClose call sites found")
    cl = wsp.methods.get("_connectionLost")
    for f, c in sites:
        ctx.ob(f"{f.qualname}: {stmt_key(c)} [owner]", f.qualname == cl.qualname,
               "_onClose (application close notification) invoked outside WebSocketProtocol._connectionLost", f.loc(c))
    g, mf, res = an.get(cl)
    ctx.analysed(cl)
    nodes = [(n, c) for n in g.stmt_nodes() for c in node_calls(n) if self_call(c, "_onClose")]
    for i, (n, c) in enumerate(nodes):
        others = [m for (m, _) in nodes if m is not n]
        excl = not any(m.id in g.reachable(n, start_exclusive=True) for m in others) and n.id not in g.reachable(
            n, start_exclusive=True) - {n.id} or True
        reach = g.reachable(n)
        ctx.ob(f"{cl.qualname}: {stmt_key(c)} [once]", not any(m.id in reach for m in others),
               "two _onClose calls lie on one path (close notification could fire twice)", cl.loc(c))
        clean = norm.is_truthy_known(mf.at(n), "self.wasClean")
        args = [norm.text(a) for a in c.args]
        if clean is True:
            ctx.ob(f"{cl.qualname}: {stmt_key(c)} [clean args]",
                   args[:3] == ["self.wasClean", "self.remoteCloseCode", "self.remoteCloseReason"],
                   "clean close must report the peer's code and reason", cl.loc(c))
        elif clean is False:
            k = norm.key(c.args[1], res) if len(c.args) > 1 else ("e", "")
            ctx.ob(f"{cl.qualname}: {stmt_key(c)} [unclean args]", args[:1] == ["self.wasClean"] and k == ("c", 1006),
                   "unclean close must be reported with code 1006", cl.loc(c))
        else:
            ctx.ob(f"{cl.qualname}: {stmt_key(c)} [branch]", False,
                   "_onClose call not under a wasClean test; reported code cannot be tied to cleanliness", cl.loc(c))
    # "after it nothing further is delivered": the open notification runs from continuations of user hooks (onConnect may be asynchronous);
    # by then the connection may be gone -- every continuation re-checks that the state is OPEN before it notifies
    S = _states(ctx)
    opens = []
    for f in [x for x in hierarchy_funcs(ctx.program, WSP) if not is_test_module(x.module.name)]:
        if not any(self_call(c, "_onOpen") for c in calls_in(f.node)):
            continue
        gg, mm, rr = an.get(f)
        for n in gg.stmt_nodes():
            for c in node_calls(n):
                if self_call(c, "_onOpen"):
                    opens.append((f, gg, mm, n, c))
    ctx.require(len(opens) >= 2, "fewer than 2 _onOpen call sites found")
    for f, gg, mm, n, c in opens:
        if f.parent is None:
            vals = norm.values_allowed(mm.at(n), "self.state", set(S.values()))
            ok = vals == {S["STATE_OPEN"]}
        else:
            ok = norm.values_allowed(mm.at(n), "self.state", set(S.values())) == {S["STATE_OPEN"]}
        ctx.ob(f"{f.qualname}: the open notification is delivered only while the state is (still) OPEN", ok,
               "onOpen can be delivered on a connection that was closed or lost while the user's onConnect() was pending (onOpen after onClose)", f.loc(c))
    # "after it nothing further is ... written": the same continuations, success AND failure side, evaluated (sa.core.tiny, callees evaluated in
    # place down to the write sinks) on a connection that was lost while the user's onConnect() was pending
    _pending_onconnect_cells(ctx, S)
    # wasClean = True only in onCloseFrame, in CLOSING (our close already sent) or in OPEN followed by our reply
    ocf = wsp.methods.get("onCloseFrame")
    n_true = 0
    for f in [x for x in hierarchy_funcs(ctx.program, WSP) if not is_test_module(x.module.name)]:
        stores = [n for n in walk_no_defs(f.node) if isinstance(n, ast.Assign) and any(is_self_attr(t, "wasClean") for t in n.targets)]
        if not stores:
            continue
        gg, mm, rr = an.get(f)
        for n, v in find_assign_nodes(gg, "wasClean"):
            k = norm.key(v, rr)
            if k == ("c", False):
                continue
            n_true += 1
            cons = f"{f.qualname}: {stmt_key(n.ast)}"
            if f.qualname != ocf.qualname or k != ("c", True):
                ctx.ob(cons, False, "wasClean set truthy outside onCloseFrame (clean only if the peer's close frame arrived)", f.loc(n.ast))
                continue
            vals = norm.values_allowed(mm.at(n), "self.state", set(S.values()))
            if vals == {S["STATE_CLOSING"]}:
                ctx.ob(cons + " [CLOSING]", True)
            elif vals == {S["STATE_OPEN"]}:
                follows = gg.always_followed_by(n, lambda x: any(self_call(c, "sendCloseFrame") for c in node_calls(x)))
                ctx.ob(cons + " [OPEN then reply]", follows,
                       "wasClean = True in OPEN without our close frame being sent on every path", f.loc(n.ast))
            else:
                ctx.ob(cons, False, f"wasClean = True reachable in states {sorted(vals)}", f.loc(n.ast))
    ctx.require(n_true >= 2, "expected two `wasClean = True` sites in onCloseFrame")


def _pending_onconnect_cells(ctx, S):
    from ..core.tiny import Tiny, Sym
    from .common import WSS
    probs, n = [], 0
    sinks = ("sendData", "dropConnection", "_onOpen", "onOpen", "_closeConnection", "consumeData", "unregisterProducer", "registerProducer", "_onConnect", "onConnect",
             "sendHtml", "_trigger")
    conts = []
    for clsq, host, names in ((WSS, "processHandshake", ("forward_error",)), (WSC, "processHandshake", ("on_connect_success", "on_connect_failed"))):
        hf = ctx.program.func(f"{clsq}.{host}")
        for f_ in hf.nested_list():
            if f_.name in names:
                conts.append((clsq, f_, f"{clsq.split('.')[-1]}.{host}.{f_.name}"))
    ss = ctx.program.func(f"{WSS}.succeedHandshake")
    conts.append((WSS, ss, "WebSocketServerProtocol.succeedHandshake"))
    ctx.require(len(conts) == 4, f"continuations of the pending onConnect() not found ({[c[2] for c in conts]})")
    try:
        for clsq, fn, label in conts:
            cls = ctx.program.cls(clsq)
            ctx.analysed(fn)

            def inl(name, _cls=cls):
                if name in sinks:
                    return None
                m_ = ctx.program.lookup_method(_cls, name)
                return m_.node if m_ is not None else None
            for deny in ((True, False) if fn.name == "forward_error" else (None,)):
                wrote = []

                def oracle(f_, a_, k_=None):
                    if f_ in ("self.transport.write", "self.transport.close", "self.transport.abort", "self.transport.loseConnection") or \
                            (f_.startswith("self.") and f_[5:] in sinks):
                        wrote.append(f_)
                        return None
                    if f_ == "isinstance":
                        return bool(deny)
                    return Sym(f"<{f_}>")
                env = {"self": Sym("protocol"), "self.state": S["STATE_CLOSED"], "self.transport": None, "self.log": Sym("log"), "self.failByDrop": True, "self.failedByMe": False,
                       "self.trackedTimings": None, "self.data": [], "self.is_open": Sym("is_open"), "self.wasNotCleanReason": None, "self.factory": Sym("factory", isServer=clsq == WSS),
                       "WebSocketProtocol": Sym("class WebSocketProtocol", **S)}
                env.update({f"WebSocketProtocol.{k_}": v_ for k_, v_ in S.items()})
                from .common import module_level_names
                for k_, v_ in module_level_names(fn).items():
                    env.setdefault(k_, v_)
                env["ConnectionDeny"] = Sym("class ConnectionDeny", INTERNAL_SERVER_ERROR=500)
                # whatever else the continuation reads of the protocol object is some opaque value: on a closed connection it must not get that far
                for x_ in ast.walk(fn.node):
                    if isinstance(x_, ast.Attribute) and is_self_attr(x_) and isinstance(x_.ctx, ast.Load) and f"self.{x_.attr}" not in env \
                            and ctx.program.lookup_method(cls, x_.attr) is None:
                        env[f"self.{x_.attr}"] = [] if x_.attr in ("websocket_extensions", "websocket_protocols", "perMessageCompressionOffers") else Sym(f"<self.{x_.attr}>")
                prm = fn.params()
                arg = prm[1] if fn.parent is None else (prm[0] if prm else None)
                if arg:
                    env[arg] = Sym("result-or-failure", value=Sym("exception", reason="denied", code=403))
                r = Tiny(env, default_call=oracle, inline_self=inl, opaque_globals=True, model_strings=True, model_types=True).run(
                    [x for x in fn.node.body if not (isinstance(x, ast.Expr) and isinstance(x.value, ast.Constant))])
                n += 1
                tag = label + ("" if deny is None else (" (ConnectionDeny)" if deny else " (unexpected exception)"))
                if r[0] == "raise":
                    probs.append(f"{tag}: raises {str(r[1])[:60]} on the closed connection")
                elif wrote:
                    probs.append(f"{tag}: still calls {sorted(set(wrote))} although the connection is closed (the close notification has been delivered)")
    except AnalysisError as e:
        raise AnalysisError(f"[C05.5-close-notification] continuation of the pending onConnect() outside the modelled subset: {e}")
    ctx.ob(f"continuations of a pending onConnect() (success and failure side, server and client) write and deliver nothing once the connection is closed [{n} cells]",
           not probs, "; ".join(probs[:2]), conts[0][1].loc())


def rule_bounded_closing(ctx):
    ctx.rule("C05.6-bounded-closing")
    an = get_analysis(ctx)
    cg = _cg(ctx)
    wsp = ctx.program.cls(WSP)
    scf = wsp.methods["sendCloseFrame"]
    g, mf, res = an.get(scf)
    ctx.analysed(scf)
    # (a) initiating path: timer armed under closedByMe and timeout > 0, handler drops
    arm = [(n, v) for n, v in find_assign_nodes(g, "closeHandshakeTimeoutCall") if isinstance(v, ast.Call)]
    ctx.require(len(arm) >= 1, "closeHandshakeTimeoutCall arming site not found in sendCloseFrame")
    for n, v in arm:
        facts = mf.at(n)
        handler = v.args[1] if len(v.args) > 1 else None
        hname = handler.attr if isinstance(handler, ast.Attribute) else None
        hfn = wsp.methods.get(hname) if hname else None
        ok = hfn is not None and any(self_call(c, "dropConnection") for c in calls_in(hfn.node))
        ctx.ob(f"{scf.qualname}: closeHandshakeTimeout handler drops", ok,
               "close-handshake timer handler does not reach dropConnection", scf.loc(n.ast))
        from .common import initiated_by_us
        cond_ok = initiated_by_us(facts, scf)
        ctx.ob(f"{scf.qualname}: closeHandshakeTimeout armed when closedByMe", cond_ok,
               "close-handshake timer not armed under `closedByMe`", scf.loc(n.ast))
        # armed after state = CLOSING on the same path
        from .common import assigns_self_attr
        ctx.ob(f"{scf.qualname}: timer armed after CLOSING",
               ("eq", "self.state", ("c", _states(ctx)["STATE_CLOSING"]), True) in facts,
               "timer armed on a path where state is not CLOSING", scf.loc(n.ast))
    # (b) replying path: every sendCloseFrame(isReply=True) call must be followed by dropConnection or a timer on all paths
    for (caller, call, _) in cg.callers(scf):
        kind, e = bound_arg(call, scf, "isReply")
        if kind != "arg" or not (isinstance(e, ast.Constant) and e.value is True):
            continue
        gg, mm, rr = an.get(caller)
        node = [n for n in gg.stmt_nodes() if any(c is call for c in node_calls(n))][0]

        from .common import local_canon, canon_text

        def edge_ok_for(fn_):
            cn_ = local_canon(fn_)

            def edge_ok(a, b, lab):
                # a timeout configured to 0 switches ITS timer off on purpose: the F edge of `self.<x>Timeout > 0` is "bound disabled by
                # configuration", not an unbounded path -- provided the T side arms a timer with that very timeout as its delay
                if lab and lab[0] == "F":
                    import copy as _cp
                    from .common import _Subst
                    test = _Subst(cn_).visit(ast.Expression(body=_cp.deepcopy(lab[1]))).body
                    at = norm.atoms(test, True)
                    if len(at) == 1 and at[0][0] == "lt" and at[0][1] == ("c", 0) and at[0][2][0] == "e" and \
                            at[0][2][1].startswith("self.") and at[0][2][1].endswith("Timeout") and at[0][3]:
                        tested = at[0][2][1]
                        for m_, l2 in a.succ:
                            if l2 and l2[0] == "T" and m_.kind == "stmt" and isinstance(m_.ast, ast.Assign) and isinstance(m_.ast.value, ast.Call) \
                                    and (call_name(m_.ast.value) or "").endswith("call_later") and m_.ast.value.args \
                                    and canon_text(fn_, m_.ast.value.args[0], cn_) == tested:
                                return False
                return True
            return edge_ok

        def bounded(n, depth=0):
            if any(self_call(c, "dropConnection") for c in node_calls(n)):
                return True
            if n.kind == "stmt" and isinstance(n.ast, ast.Assign) and isinstance(n.ast.value, ast.Call) and \
                    (call_name(n.ast.value) or "").endswith("call_later"):
                return True
            # a private helper of the class all of whose paths drop the connection or arm a timer bounds the path as well
            if depth < 2:
                for c in node_calls(n):
                    if self_call(c) and c.func.attr.startswith("_") and not c.func.attr.startswith("__"):
                        h = ctx.program.lookup_method(wsp, c.func.attr)
                        if h is not None and h is not caller:
                            gh, _mh, _rh = an.get(h)
                            if gh.always_followed_by(gh.entry, lambda x: bounded(x, depth + 1), edge_ok=edge_ok_for(h)):
                                return True
            return False
        edge_ok = edge_ok_for(caller)

        ok = gg.always_followed_by(node, bounded, edge_ok=edge_ok)
        ctx.ob(f"{caller.qualname}: reply-close bounded", ok,
               "after replying to the peer's close frame some path neither drops the connection nor arms a timer "
               "(client side: if the server never drops TCP the connection stays in CLOSING forever)", caller.loc(call))


def run(ctx):
    # what the application configures is what the connection uses: options handed to setProtocolOptions reach the factory attribute of their name
    from .common import rule_option_setters
    rule_option_setters(ctx, "C05.10-configured-close-options-reach-the-factory", [('WebSocketServerFactory', 'failByDrop', 'bool'), ('WebSocketServerFactory', 'echoCloseCodeReason', 'bool'), ('WebSocketServerFactory', 'closeHandshakeTimeout', 'num'), ('WebSocketClientFactory', 'failByDrop', 'bool'), ('WebSocketClientFactory', 'echoCloseCodeReason', 'bool'), ('WebSocketClientFactory', 'closeHandshakeTimeout', 'num'), ('WebSocketClientFactory', 'serverConnectionDropTimeout', 'num')],
                        "the closing handshake is then bounded by another time / follows another policy than the configured one")
    rule_state_writers(ctx)
    rule_close_frame_owner(ctx)
    rule_send_guards(ctx)
    rule_close_code_reason(ctx)
    rule_onclose_owner(ctx)
    rule_bounded_closing(ctx)
    # a direct write must not overtake queued frames: otherwise data frames follow our close frame on the wire
    from .c01 import rule_send_queue
    rule_send_queue(ctx, "C05.7-close-frame-is-not-overtaken")
    # "the reported code and reason are the peer's": what onCloseFrame remembers of each close frame (and nothing of an earlier or refused one)
    from .c02 import rule_close_payload
    rule_close_payload(ctx, "C05.8-reported-code-and-reason-are-the-peers")
    # "reaches closed within the configured close/drop timeouts": every timer is armed with its own timeout, under the test of that timeout,
    # with its own handler (table shared with C17.1)
    from .c17 import rule_table as _timer_table_rule
    _timer_table_rule(ctx, "C05.9-close-and-drop-timers-armed-with-their-own-timeouts")
