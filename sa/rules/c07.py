"""C07 - The opening handshake admits exactly the valid peers and never crashes."""
import ast

from ..core.index import AnalysisError, walk_no_defs, calls_in, call_name, kwarg
from ..core.cfg import node_calls
from ..core import norm
from ..core.excflow import ExcFlow
from ..core.flow import CallGraph
from ..spec import rfc6455
from .common import (WSP, WSS, WSC, get_analysis, is_self_attr, self_call, stmt_key, find_assign_nodes, is_test_module)

META = {
    "explanation": "Cell-wise abstract evaluation (sa.core.tiny, rules/c07_cells.py) of the two handshake validators on a well-formed message and "
                   "its single-point deviations (server: 61 requests incl. origin policy per protocol version, external port, connection limit; "
                   "client: the request it writes for 12 URL/option cells, then 33 responses incl. one arriving before the request), and of the "
                   "header-block splitter on values containing non-HTTP line separators.  In addition acceptance-dominance rules: for the server (the as_future(onConnect) site) and the client (state = OPEN) every "
                   "RFC 6455 section 4 obligation must hold as a must-fact at the acceptance node or be a failing test that "
                   "every path to acceptance passes; accept-digest data flow (SHA-1 of key + RFC GUID, base64, compared with the "
                   "digest of the key this client sent); whole-origin regex anchoring; answer-subset-of-offer; request built from "
                   "the URL components; exception-escape analysis of the handshake entry points (risky library operations on "
                   "peer-controlled data must be guarded or caught).",
    "assumptions": ["acceptance of exactly the HTTP grammar for arbitrary octets is not decided (string parsing at run time)",
                    "user callbacks (onConnect, perMessageCompressionAccept) are assumed not to raise unexpectedly; their "
                    "results are application data, not peer data",
                    "generic `raise Exception(...)` statements are state-machine defaults / API misuse, not input driven"],
}

SAFE = {
    ("autobahn.websocket.protocol.parseHttpHeader", "raw[0]"):
        "callers pass self.data[:end_of_header + 4] with end_of_header >= 0, a non-empty string; split() with a separator never returns an empty list",
    ("autobahn.websocket.protocol.WebSocketProtocol._parseExtensionsHeader", "p[0]"):
        "p = [x.strip() for x in p.split('=')] : split with a separator never returns an empty list",
    ("autobahn.websocket.protocol._is_same_origin", "raise ValueError(\"'websocket_origin' must be a 3-tuple\")"):
        "only called with the result of _url_to_origin, which returns 'null' or a 3-tuple (checked by rule C07.4)",
}
REGISTRY_KEYS = ("Offer", "OfferAccept", "Response", "ResponseAccept", "PMCE")
STOP = {"consumeData", "dropConnection", "sendData", "_onOpen", "startHandshake", "startTLS", "onConnect", "_onConnect",
        "_fail_connection", "onConnecting"}


def _cg(ctx):
    if not hasattr(ctx, "_cg"):
        ctx._cg = CallGraph(ctx.program)
    return ctx._cg


def _fail_return_edges(g, failname="failHandshake"):
    """test nodes with an edge whose successor is `return self.failHandshake(...)`; yields (test, polarity)."""
    out = []
    for n in g.stmt_nodes():
        if n.kind != "test":
            continue
        for m, lab in n.succ:
            if lab and lab[0] in ("T", "F") and m.kind == "stmt" and isinstance(m.ast, ast.Return) and m.ast.value is not None \
                    and isinstance(m.ast.value, ast.Call) and self_call(m.ast.value, failname):
                out.append((n, lab[0] == "T"))
    return out


def _has(facts, *wanted):
    return all(w in facts for w in wanted)


def _token_flag(fn, g, mf, header, token):
    """The local that holds "the comma list of `header` contains `token` (case-insensitive)" and whether it is computed soundly.
    Accepts the flag-loop form (x = False; for u in H.split(','): if u.strip().lower() == tok: x = True) and x = any(... for u in H.split(','))."""
    it = f"self.http_headers['{header}'].split(',')"
    # any(...) form
    for st in walk_no_defs(fn.node):
        if isinstance(st, ast.Assign) and len(st.targets) == 1 and isinstance(st.targets[0], ast.Name) and isinstance(st.value, ast.Call) and \
                norm.text(st.value.func) == "any" and len(st.value.args) == 1 and isinstance(st.value.args[0], (ast.GeneratorExp, ast.ListComp)):
            ge = st.value.args[0]
            if len(ge.generators) == 1 and norm.text(ge.generators[0].iter) == it and not ge.generators[0].ifs and isinstance(ge.generators[0].target, ast.Name):
                v = ge.generators[0].target.id
                at = norm.atoms(ge.elt, True)
                if at == [("eq", f"{v}.strip().lower()", ("c", token), True)]:
                    others = [x for x in walk_no_defs(fn.node) if isinstance(x, ast.Assign) and any(isinstance(t, ast.Name) and t.id == st.targets[0].id for t in x.targets) and x is not st]
                    return st.targets[0].id, not others
    # flag-loop form
    loops = [n for n in g.stmt_nodes() if n.kind == "for" and norm.text(n.ast.iter) == it and isinstance(n.ast.target, ast.Name)]
    if len(loops) == 1:
        v = loops[0].ast.target.id
        trues = [n for n in g.stmt_nodes() if n.kind == "stmt" and isinstance(n.ast, ast.Assign) and isinstance(n.ast.targets[0], ast.Name)
                 and isinstance(n.ast.value, ast.Constant) and n.ast.value.value is True
                 and ("eq", f"{v}.strip().lower()", ("c", token), True) in (mf.at(n) or ())]
        if len(trues) == 1:
            flag = trues[0].ast.targets[0].id
            sets = [n for n in g.stmt_nodes() if n.kind == "stmt" and isinstance(n.ast, ast.Assign) and norm.text(n.ast.targets[0]) == flag]
            falses = [n for n in sets if isinstance(n.ast.value, ast.Constant) and n.ast.value.value is False]
            return flag, len(sets) == 2 and len(falses) == 1 and g.always_preceded_by(loops[0], lambda x: x is falses[0])
    return None, False


def _registry_entry(fn, name):
    """every assignment of the local `name` in fn takes an entry out of PERMESSAGE_COMPRESSION_EXTENSION"""
    defs = [st.value for st in walk_no_defs(fn.node) if isinstance(st, ast.Assign) and any(isinstance(t, ast.Name) and t.id == name for t in st.targets)]
    return bool(defs) and all(isinstance(v, ast.Subscript) and norm.text(v.value) == "PERMESSAGE_COMPRESSION_EXTENSION" for v in defs)


def _unpacked_name(fn, callee_suffix, index, default):
    """the local at position `index` of the tuple target that unpacks the result of a call to `callee_suffix` (whatever it is called)"""
    for st in walk_no_defs(fn.node):
        if isinstance(st, ast.Assign) and isinstance(st.value, ast.Call) and (call_name(st.value) or "").split(".")[-1] == callee_suffix and \
                isinstance(st.targets[0], ast.Tuple) and len(st.targets[0].elts) > index and isinstance(st.targets[0].elts[index], ast.Name):
            return st.targets[0].elts[index].id
    return default


def _assigned_from(fn, pred, default):
    """the local assigned a value satisfying pred (first one), whatever it is called"""
    for st in sorted((x for x in walk_no_defs(fn.node) if isinstance(x, ast.Assign)), key=lambda x: x.lineno):
        if len(st.targets) == 1 and isinstance(st.targets[0], ast.Name) and pred(st.value):
            return st.targets[0].id
    return default


def rule_server(ctx):
    ctx.rule("C07.1-server-obligations")
    an = get_analysis(ctx)
    fn = ctx.program.func(f"{WSS}.processHandshake")
    ctx.analysed(fn)
    g, mf, res = an.get(fn)
    acc = [(n, c) for n in g.stmt_nodes() for c in node_calls(n) if call_name(c) == "txaio.as_future" and c.args and norm.text(c.args[0]) == "self.onConnect"]
    ctx.require(len(acc) == 1, "server processHandshake: acceptance site txaio.as_future(self.onConnect, ...) not found")
    A = acc[0][0]
    F = mf.at(A)
    H = "self.http_headers"
    CNT = _unpacked_name(fn, "parseHttpHeader", 2, "http_headers_cnt")
    frag = _unpacked_name(fn, "urlparse", 5, "fragment")

    def single(h):
        return ("lt", ("c", 1), ("e", f"{CNT}['{h}']"), False)

    def present(h):
        return ("in", repr(h), ("e", H), True)

    from .common import local_canon, name_for
    canon = local_canon(fn)
    rl = name_for(fn, "self.http_status_line.split()", canon)
    vs = name_for(fn, "self.http_status_line.split()[2].strip().split('/')", canon)
    if vs.startswith("self.") and rl != "self.http_status_line.split()":
        vs = f"{rl}[2].strip().split('/')"
    key = name_for(fn, "self.http_headers['sec-websocket-key'].strip()", canon)
    version = name_for(fn, "int(self.http_headers['sec-websocket-version'])", canon)
    # "the Upgrade / Connection header lists the token" and the whole origin policy are decided cell-wise (c07_cells): how the membership
    # is computed (flag loop, any(), all(), helper) and how the origin branches are arranged has no fixed shape
    obligations = [
        ("request line has exactly 3 parts", [("eq", f"len({rl})", ("c", 3), True)]),
        ("method is GET", [("eq", f"{rl}[0].strip()", ("c", "GET"), True)]),
        ("HTTP version is HTTP/1.1", [("eq", f"len({vs})", ("c", 2), True), ("eq", f"{vs}[0]", ("c", "HTTP"), True), ("eq", f"{vs}[1]", ("c", "1.1"), True)]),
        ("request target has no fragment", [("eq", frag, ("c", ""), True)]),
        ("Host header present", [present("host")]),
        ("Host header single", [single("host")]),
        ("Upgrade header present", [present("upgrade")]),
        ("Connection header present", [present("connection")]),
        ("Sec-WebSocket-Version present", [present("sec-websocket-version")]),
        ("Sec-WebSocket-Version single", [single("sec-websocket-version")]),
        ("Sec-WebSocket-Version is a configured version", [("in", version, ("e", "self.versions"), True)]),
        ("Sec-WebSocket-Key present", [present("sec-websocket-key")]),
        ("Sec-WebSocket-Key single", [single("sec-websocket-key")]),
        ("Sec-WebSocket-Key is 24 characters", [("eq", f"len({key})", ("c", 24), True)]),
        ("Sec-WebSocket-Key ends with ==", [("eq", f"{key}[-2:]", ("c", "=="), True)]),
    ]
    for name, facts in obligations:
        ctx.ob(f"server: {name}", _has(F, *facts), f"acceptance (onConnect) is reachable without `{name}` having been established", fn.loc(A.ast))
    # the values the obligations talk about are derived from the received request (roles found by their definitions, not by name)
    ctx.ob("server: the request line is split into its parts", True, "", fn.loc())
    ctx.ob("server: key is the Sec-WebSocket-Key header", key != "" , "", fn.loc())
    # key alphabet
    loops = [n for n in g.stmt_nodes() if n.kind == "for" and norm.text(n.ast.iter) == f"{key}[:-2]"]
    ok = False
    if len(loops) == 1:
        cv = norm.text(loops[0].ast.target)
        for t, pol in _fail_return_edges(g):
            at = norm.atoms(t.ast, pol, res)
            for f in at:
                if f[0] == "in" and f[1] == cv and f[2][0] == "c" and not f[3]:
                    alpha = f[2][1] if isinstance(f[2][1], str) else ""
                    import string
                    ok = set(alpha) == set(string.ascii_letters + string.digits + "+/")
    ctx.ob("server: Sec-WebSocket-Key characters restricted to the base64 alphabet", ok, "alphabet test over key[:-2] missing or alphabet changed", fn.loc())
    # protocol list duplicate-free: in a loop over the list parsed from the Sec-WebSocket-Protocol header, a value already seen fails the handshake
    from .common import local_canon, canon_text
    _canon = local_canon(fn)
    loops = [n for n in g.stmt_nodes() if n.kind == "for" and "sec-websocket-protocol" in canon_text(fn, n.ast.iter, _canon)]
    ok = False
    for lp in loops:
        cv = norm.text(lp.ast.target)
        for t, pol in _fail_return_edges(g):
            at = norm.atoms(t.ast, pol, res)
            for f in at:
                if f[0] == "in" and f[1] == cv and f[3] and isinstance(f[2], tuple):
                    coll = f[2][1]
                    for x in ast.walk(lp.ast):
                        if isinstance(x, ast.Assign) and norm.text(x.targets[0]) == f"{coll}[{cv}]":
                            ok = True
                        if isinstance(x, ast.Call) and isinstance(x.func, ast.Attribute) and x.func.attr in ("add", "append") and norm.text(x.func.value) == coll \
                                and len(x.args) == 1 and norm.text(x.args[0]) == cv:
                            ok = True
    if not ok:
        # ... or the list is compared with its de-duplicated self: len(set(P)) != len(P)
        for t, pol in _fail_return_edges(g):
            for x in ast.walk(t.ast):
                if isinstance(x, ast.Compare) and len(x.ops) == 1 and isinstance(x.ops[0], (ast.NotEq, ast.Lt, ast.Gt)):
                    sides = [canon_text(fn, x.left, _canon), canon_text(fn, x.comparators[0], _canon)]
                    for a_, b_ in (sides, sides[::-1]):
                        if a_.startswith("len(set(") and b_ == "len(" + a_[len("len(set("):-2] + ")" and "sec-websocket-protocol" in a_:
                            ok = True
    ctx.ob("server: duplicate subprotocols rejected", ok, "duplicate check over the Sec-WebSocket-Protocol list missing", fn.loc())
    sp = [n for n, v in find_assign_nodes(g, "websocket_protocols")]
    from .common import canon_text
    ctx.ob("server: client's protocol list kept in the order sent",
           any("self.http_headers['sec-websocket-protocol']" in canon_text(fn, n.ast.value, canon) and "split(',')" in canon_text(fn, n.ast.value, canon) for n in sp),
           "websocket_protocols no longer the parsed header list", fn.loc())
    # extensions header single
    ex = [n for n, v in find_assign_nodes(g, "websocket_extensions") if isinstance(v, ast.Call)]
    ok = len(ex) == 1 and ("lt", ("c", 1), ("e", f"{CNT}['sec-websocket-extensions']"), False) in mf.at(ex[0]) and \
        norm.text(ex[0].ast.value) == "self._parseExtensionsHeader(self.http_headers['sec-websocket-extensions'])"
    ctx.ob("server: Sec-WebSocket-Extensions parsed only when single", ok, "extensions header handling changed", fn.loc())
    # connection limit
    lim = [n for n in g.stmt_nodes() if n.kind == "test" and set(norm.atoms(n.ast, True, res)) ==
           {("lt", ("c", 0), ("e", "self.maxConnections"), True), ("lt", ("e", "self.maxConnections"), ("e", "self.factory.countConnections"), True)}]
    ok = len(lim) == 1 and not any(g.path_exists(m, A) for m, lab in lim[0].succ if lab and lab[0] == "T") and g.always_preceded_by(A, lambda x: x is lim[0])
    ctx.ob("server: connection limit checked before acceptance", ok, "maxConnections test missing or acceptance reachable when over the limit", fn.loc())
    # every failing edge returns (no fall-through after failHandshake)
    for n in g.stmt_nodes():
        for c in node_calls(n):
            if self_call(c, "failHandshake"):
                ctx.ob(f"server: `{stmt_key(c)[:60]}` ends processing", not g.path_exists(n, A),
                       "after failHandshake() the acceptance site is still reachable", fn.loc(c))
    # stored key is the validated key
    wk = [n for n, v in find_assign_nodes(g, "_wskey")]
    ctx.ob("server: the validated key is the one remembered for the accept digest", len(wk) == 1 and norm.text(wk[0].ast.value) == key and
           g.always_preceded_by(A, lambda x: x is wk[0]), "_wskey not assigned from the validated key", fn.loc())


def rule_client(ctx):
    ctx.rule("C07.2-client-obligations")
    an = get_analysis(ctx)
    fn = ctx.program.func(f"{WSC}.processHandshake")
    ctx.analysed(fn)
    g, mf, res = an.get(fn)
    S_OPEN = ctx.program.class_const(ctx.program.cls(WSP), "STATE_OPEN")
    acc = [n for n, v in find_assign_nodes(g, "state") if norm.key(v, res) == ("c", S_OPEN)]
    ctx.require(len(acc) == 1, "client processHandshake: state = OPEN not found")
    A = acc[0]
    F = mf.at(A)
    H, CNT = "self.http_headers", _unpacked_name(fn, "parseHttpHeader", 2, "http_headers_cnt")
    from .common import local_canon, name_for, canon_text
    canon = local_canon(fn)
    sl = name_for(fn, "self.http_status_line.split()", canon)
    http_version = name_for(fn, "self.http_status_line.split()[0].strip()", canon)
    if http_version.startswith("self.") and sl != "self.http_status_line.split()":
        http_version = f"{sl}[0].strip()"
    status_code = name_for(fn, "int(self.http_status_line.split()[1].strip())", canon)
    if status_code.startswith("int(self.") and sl != "self.http_status_line.split()":
        status_code = f"int({sl}[1].strip())"
    got = name_for(fn, "self.http_headers['sec-websocket-accept'].strip()", canon)
    # the expected digest: the local compared with the received one
    expected = None
    for f in F or ():
        if f[0] == "eq" and f[3] and isinstance(f[2], tuple) and f[2][0] == "e" and got in (f[1], f[2][1]):
            expected = f[2][1] if f[1] == got else f[1]
    obligations = [
        ("status line has >= 2 parts", [("lt", ("e", f"len({sl})"), ("c", 2), False)]),
        ("HTTP version is HTTP/1.1", [("eq", http_version, ("c", "HTTP/1.1"), True)]),
        ("status code is 101", [("eq", status_code, ("c", 101), True)]),
        ("Upgrade header present", [("in", "'upgrade'", ("e", H), True)]),
        ("Upgrade header is websocket", [("eq", "self.http_headers['upgrade'].strip().lower()", ("c", "websocket"), True)]),
        ("Connection header present", [("in", "'connection'", ("e", H), True)]),
        ("Sec-WebSocket-Accept present", [("in", "'sec-websocket-accept'", ("e", H), True)]),
        ("Sec-WebSocket-Accept single", [("lt", ("c", 1), ("e", f"{CNT}['sec-websocket-accept']"), False)]),
    ]
    ctx.ob("client: Sec-WebSocket-Accept equals the expected digest", expected is not None,
           "state = OPEN is reachable without the received Sec-WebSocket-Accept having been compared for equality", fn.loc(A.ast))
    ctx._c07_expected_digest = expected
    for name, facts in obligations:
        ctx.ob(f"client: {name}", _has(F, *facts), f"state = OPEN is reachable without `{name}` having been established", fn.loc(A.ast))
    # extensions: each one known, not repeated, parsed ok, accepted
    # roles, not names: the parsed header list, the loop variables, the registry entry and the application's verdict
    wexts = _assigned_from(fn, lambda v: isinstance(v, ast.Call) and norm.text(v.func) == "self._parseExtensionsHeader", "websocket_extensions")
    loops = [n for n in g.stmt_nodes() if n.kind == "for" and norm.text(n.ast.iter) == wexts]
    ctx.require(len(loops) == 1, "client: extension loop not found")
    L = loops[0]
    lt_ = L.ast.target
    XN = lt_.elts[0].id if isinstance(lt_, ast.Tuple) and lt_.elts and isinstance(lt_.elts[0], ast.Name) else "extension"
    ACC = _assigned_from(fn, lambda v: isinstance(v, ast.Call) and norm.text(v.func) == "self.perMessageCompressionAccept", "accept")
    PM = _assigned_from(fn, lambda v: isinstance(v, ast.Subscript) and norm.text(v.value) == "PERMESSAGE_COMPRESSION_EXTENSION", "PMCE")
    ext_parse = [n for n, v in [(n, n.ast.value) for n in g.stmt_nodes() if n.kind == "stmt" and isinstance(n.ast, ast.Assign) and norm.text(n.ast.targets[0]) == wexts]]
    ok = len(ext_parse) == 1 and ("lt", ("c", 1), ("e", f"{CNT}['sec-websocket-extensions']"), False) in mf.at(ext_parse[0])
    ctx.ob("client: Sec-WebSocket-Extensions single", ok, "duplicate extensions header accepted", fn.loc())
    pm = [n for n, v in find_assign_nodes(g, "_perMessageCompress")]
    ctx.require(len(pm) == 1, "client: PMCE activation site not found")
    P = pm[0]
    FP = mf.at(P)
    ctx.ob("client: extension must be a known compression extension", ("in", XN, ("e", "PERMESSAGE_COMPRESSION_EXTENSION"), True) in FP, "PMCE created for unknown extension", fn.loc(P.ast))
    ctx.ob("client: a second compression extension is refused", ("is", "self._perMessageCompress", ("c", None), True) in FP, "repeated PMCE not refused", fn.loc(P.ast))
    ctx.ob("client: application accept policy approved", ("is", ACC, ("c", None), False) in FP, "PMCE created although accept is None", fn.loc(P.ast))
    # unknown extension fails: the F edge of `extension in REGISTRY` leads to return failHandshake
    known = [n for n in g.stmt_nodes() if n.kind == "test" and norm.atoms(n.ast, True, res) == [("in", XN, ("e", "PERMESSAGE_COMPRESSION_EXTENSION"), True)]]
    ok = len(known) == 1 and (known[0], False) in _fail_return_edges(g)
    ctx.ob("client: an extension it does not know fails the handshake", ok, "unknown extensions in the response are tolerated", fn.loc())
    # parse wrapped
    parse = [(n, c) for n in g.stmt_nodes() for c in node_calls(n) if norm.text(c.func) == f"{PM}['Response'].parse"]
    ok = len(parse) == 1 and any(lab and lab[0] == "exc" for m, lab in parse[0][0].succ)
    hs = [m for m, lab in parse[0][0].succ if lab and lab[0] == "exc"] if parse else []
    ok = ok and all(any(isinstance(s.ast, ast.Return) and isinstance(s.ast.value, ast.Call) and self_call(s.ast.value, "failHandshake") for s, _ in h.succ) for h in hs)
    ctx.ob("client: response parameters that do not parse fail the handshake", bool(ok), "Response.parse not wrapped into try -> failHandshake", fn.loc())
    ap = [n for n in g.stmt_nodes() if n.kind == "stmt" and isinstance(n.ast, ast.Assign) and norm.text(n.ast.targets[0]) == ACC]
    RESP = _assigned_from(fn, lambda v: isinstance(v, ast.Call) and norm.text(v.func) == f"{PM}['Response'].parse", "pmceResponse")
    ctx.ob("client: accept policy asked with the parsed response", len(ap) == 1 and norm.text(ap[0].ast.value) == f"self.perMessageCompressionAccept({RESP})", "accept call changed", fn.loc())
    # subprotocol
    spn = [n for n, v in find_assign_nodes(g, "websocket_protocol_in_use") if norm.text(v) != "None"]
    spv = name_for(fn, "str(self.http_headers['sec-websocket-protocol'].strip())", canon)
    if spv.startswith("str("):
        spv = name_for(fn, "self.http_headers['sec-websocket-protocol'].strip()", canon)
    # the list the selection is checked against must be the list that was SENT: _actuallyStartHandshake stores what it writes into the
    # Sec-WebSocket-Protocol header (the request options may differ from the factory's defaults)
    ash = ctx.program.func(f"{WSC}._actuallyStartHandshake")
    RO = ash.params()[1]
    sent_attr = [norm.text(s_.targets[0]) for s_ in walk_no_defs(ash.node) if isinstance(s_, ast.Assign) and is_self_attr(s_.targets[0])
                 and norm.text(s_.value) in (f"{RO}.protocols", f"list({RO}.protocols)", f"tuple({RO}.protocols)", f"{RO}.protocols[:]")]
    hdr_from = any(isinstance(c, ast.Call) and isinstance(c.func, ast.Attribute) and c.func.attr == "join" and c.args and
                   norm.text(c.args[0]) in [f"{RO}.protocols"] + sent_attr for c in ast.walk(ash.node))
    inf = [f for f in (mf.at(spn[0]) if len(spn) == 1 else ()) if f[0] == "in" and f[1] == spv and f[3] and isinstance(f[2], tuple) and f[2][0] == "e"]
    checked = inf[0][2][1] if inf else None
    ok = len(spn) == 1 and checked is not None and ("lt", ("c", 1), ("e", f"{CNT}['sec-websocket-protocol']"), False) in mf.at(spn[0]) and norm.text(spn[0].ast.value) == spv
    ctx.ob("client: selected subprotocol must be one it requested, header single", ok, "subprotocol check changed", fn.loc())
    ctx.ob("client: the list the selected subprotocol is checked against is the list it actually sent", ok and hdr_from and checked in sent_attr,
           f"selection checked against `{checked}`, but the Sec-WebSocket-Protocol header is built from `{RO}.protocols` (stored as {sent_attr or 'nothing'}): with request "
           f"options from onConnecting() a subprotocol that was never offered is accepted", fn.loc())
    # "a response is judged only after the request (and its key) went out" is decided by the history cell of c07_cells (response first)
    for n in g.stmt_nodes():
        for c in node_calls(n):
            if self_call(c, "failHandshake"):
                ctx.ob(f"client: `{stmt_key(c)[:60]}` ends processing", not g.path_exists(n, A), "after failHandshake() state = OPEN is still reachable", fn.loc(c))
    # failure path drops
    for q, must in ((f"{WSC}.failHandshake", "dropConnection"), (f"{WSS}.failHandshake", "dropConnection"), (f"{WSS}.failHandshake", "sendHttpErrorResponse")):
        f2 = ctx.program.func(q)
        g2, mf2, res2 = an.get(f2)
        ctx.ob(f"{q} always reaches {must}", g2.always_followed_by(g2.entry, lambda x: any(self_call(c, must) for c in node_calls(x))), "failure path changed", f2.loc())


def _inline_priv(ctx, clsq):
    """TermEval inliner: private helpers of the protocol class are part of the computation (sinks and hooks stay observable calls)"""
    from .c07_cells import SINKS
    cls = ctx.program.cls(clsq)

    def inl(call, f):
        fu = call.func
        if isinstance(fu, ast.Attribute) and isinstance(fu.value, ast.Name) and fu.value.id == "self" and fu.attr.startswith("_") and not fu.attr.startswith("__") \
                and fu.attr not in SINKS:
            return ctx.program.lookup_method(cls, fu.attr)
        return None
    return inl


def rule_digest(ctx):
    ctx.rule("C07.3-accept-digest")
    wsp = ctx.program.cls(WSP)
    try:
        magic = ctx.program.class_const(wsp, "_WS_MAGIC")
    except KeyError:
        magic = None
    ctx.ob("_WS_MAGIC is the RFC 6455 GUID", magic == rfc6455.GUID, f"_WS_MAGIC = {magic!r}", wsp.loc())
    # the digest as a term (def-use extraction: locals, temporaries, incremental update() vs one-shot constructor are the same term)
    from ..core.terms import TermEval, show, subterms
    from .c19 import canon
    SELF = ("p", "self")
    MAGIC = ("g", "WebSocketProtocol._WS_MAGIC")

    def digest_of(key):
        return ("b64e", ("hash", "sha1", ("op", "+", key, MAGIC)))

    def has_hash(t):
        return any(isinstance(y, tuple) and y and (y[0] == "hash" or (y[0] == "m" and y[2] in ("digest", "hexdigest"))) for y in subterms(t))
    # client: the received Sec-WebSocket-Accept is compared with base64(SHA-1(own key + GUID)); inequality fails the handshake
    fn = ctx.program.func(f"{WSC}.processHandshake")
    ctx.analysed(fn)
    te = TermEval(ctx.program, fn, inline=_inline_priv(ctx, WSC)).run()
    want = digest_of(("attr", SELF, "websocket_key"))
    cmps = []
    for o in te.outcomes:
        for c, pol in o.conds:
            c = canon(c)
            if c[0] == "cmp" and has_hash(c) and (c, pol, o) not in cmps:
                cmps.append((c, pol, o))
                break
    fails = [(c, pol, o) for c, pol, o in cmps if o.kind == "return" and o.term[0] == "m" and o.term[2] == "failHandshake"]
    ok = bool(fails)
    why = "no comparison of the received accept value with a digest guards failHandshake"
    for c, pol, o in fails[:1]:
        sides = [c[2], c[3]]
        mine = [x for x in sides if has_hash(x)]
        theirs = [x for x in sides if not has_hash(x)]
        okd = len(mine) == 1 and (mine[0] == want or (mine[0][0] == "dec" and mine[0][1] in ("utf8", "ascii", "latin1") and mine[0][2] == want))
        ctx.ob(f"{WSC}.processHandshake: expected accept value is base64(SHA-1(own key + GUID))", okd, f"expected value is {show(mine[0])[:160] if mine else None}", fn.loc(o.node))
        okh = len(theirs) == 1 and any(y == ("c", "sec-websocket-accept") for y in subterms(theirs[0]))
        ctx.ob(f"{WSC}.processHandshake: it is compared with the received Sec-WebSocket-Accept header", okh, f"compared with {show(theirs[0])[:120] if theirs else None}", fn.loc(o.node))
        okp = (c[1] == "!=" and pol) or (c[1] == "==" and not pol)
        ctx.ob(f"{WSC}.processHandshake: any difference fails the handshake", okp, f"failHandshake under `{show(c)[:80]}` being {pol}", fn.loc(o.node))
    ctx.ob(f"{WSC}.processHandshake: accept digest is verified", ok, why, fn.loc())
    others = [c for c, pol, o in cmps if (c, pol, o) not in fails and not any(c == f_[0] for f_ in fails)]
    ctx.ob(f"{WSC}.processHandshake: one digest comparison only", not others, f"{[show(c)[:60] for c in others]}", fn.loc())
    # server: the response carries "Sec-WebSocket-Accept: " + base64(SHA-1(stored key + GUID))
    fn = ctx.program.func(f"{WSS}.succeedHandshake")
    ctx.analysed(fn)
    te = TermEval(ctx.program, fn, inline=_inline_priv(ctx, WSS)).run()
    want = digest_of(("enc", "utf8", ("attr", SELF, "_wskey")))
    want2 = digest_of(("enc", "ascii", ("attr", SELF, "_wskey")))
    found, bad = 0, []
    pool = [t for _, t, _ in te.effects] + [o.term for o in te.outcomes] + [c for o in te.outcomes for c, _ in o.conds]
    for t in pool:
        t = canon(t)
        for x in subterms(t):
            if isinstance(x, tuple) and x and x[0] == "cat":
                parts = x[1:]
                for i, part in enumerate(parts):
                    if not has_hash(part) or any(isinstance(y, tuple) and y and y[0] == "cat" and has_hash(y) for y in subterms(part)):
                        continue  # the digest sits in a nested concatenation, examined on its own
                    val = part[1] if part[0] == "fmt" else part
                    good = val[0] == "dec" and val[1] in ("utf8", "ascii", "latin1") and val[2] in (want, want2)
                    hdr = i > 0 and parts[i - 1][0] == "c" and isinstance(parts[i - 1][1], str) and parts[i - 1][1].endswith("Sec-WebSocket-Accept: ")
                    if good and hdr:
                        found += 1
                    else:
                        bad.append(show(part)[:140])
    ctx.ob(f"{WSS}.succeedHandshake: the response carries Sec-WebSocket-Accept: base64(SHA-1(key stored by processHandshake + GUID))", found >= 1 and not bad,
           f"digest in the response is {bad[:1] or 'not found'}", fn.loc())
    pfn = ctx.program.func(f"{WSS}.processHandshake")
    st_ = [x for x in walk_no_defs(pfn.node) if isinstance(x, ast.Assign) and is_self_attr(x.targets[0], "_wskey")]
    from .common import canon_text
    ctx.ob("server: the stored key is the validated Sec-WebSocket-Key header value", len(st_) == 1 and "sec-websocket-key" in canon_text(pfn, st_[0].value),
           f"{[canon_text(pfn, x.value)[:80] for x in st_]}", pfn.loc())
    fn = ctx.program.func(f"{WSC}._actuallyStartHandshake")
    ctx.analysed(fn)
    ks = [s for s in walk_no_defs(fn.node) if isinstance(s, ast.Assign) and is_self_attr(s.targets[0], "websocket_key")]
    ctx.ob("client: fresh 16-byte random key, base64", len(ks) == 1 and norm.text(ks[0].value) == "base64.b64encode(os.urandom(16))", f"{[norm.text(s.value) for s in ks]}", fn.loc())
    sent = [s for s in walk_no_defs(fn.node) if isinstance(s, ast.AugAssign) and "Sec-WebSocket-Key" in norm.text(s.value)]
    ctx.ob("client: the key it will verify against is the key it sends", len(sent) == 1 and "self.websocket_key.decode()" in norm.text(sent[0].value), "sent key differs from stored key", fn.loc())


def rule_origin(ctx):
    ctx.rule("C07.4-whole-origin-match")
    import re._parser as sre_parse
    fn = ctx.program.func("autobahn.util.wildcards2patterns")
    ctx.analysed(fn)
    comps = [c for c in calls_in(fn.node) if call_name(c) == "re.compile"]
    ctx.require(len(comps) == 1, "wildcards2patterns: re.compile not found")
    e = comps[0].args[0]
    # left-assoc concat: first operand literal '^', last operand literal '$'
    parts = []

    def flat(x):
        if isinstance(x, ast.BinOp) and isinstance(x.op, ast.Add):
            flat(x.left)
            flat(x.right)
        else:
            parts.append(x)

    flat(e)
    ok = len(parts) >= 3 and isinstance(parts[0], ast.Constant) and isinstance(parts[-1], ast.Constant)
    if ok:
        try:
            head = sre_parse.parse(parts[0].value + "x")
            tail = sre_parse.parse("x" + parts[-1].value)
            ok = str(head[0][0]) == "AT" and str(head[0][1]) == "AT_BEGINNING" and str(tail[-1][0]) == "AT" and str(tail[-1][1]) == "AT_END"
        except Exception:
            ok = False
    ctx.ob("origin patterns are anchored at both ends", ok, "wildcard pattern regex is not ^...$ anchored: a prefix/suffix of the origin would match", fn.loc(comps[0]))
    mid = [norm.text(p) for p in parts[1:-1]]
    ctx.ob("wildcard translation escapes '.' and maps '*' to '.*'", mid == ["wc.replace('.', '\\\\.').replace('*', '.*')"], f"translation {mid}", fn.loc())
    f2 = ctx.program.func("autobahn.websocket.protocol._is_same_origin")
    ctx.analysed(f2)
    m = [c for c in calls_in(f2.node) if isinstance(c.func, ast.Attribute) and c.func.attr in ("match", "search", "fullmatch", "findall")]
    ok = len(m) == 1 and m[0].func.attr in ("match", "fullmatch") and len(m[0].args) == 1
    ctx.ob("origin compared with .match on the reconstituted scheme://host:port", ok, f"{[ast.unparse(c) for c in m]}", f2.loc())
    # the string handed to the pattern, as a term over the origin triple (f-string / format / concatenation are the same term)
    from ..core.terms import TermEval, show, subterms
    te = TermEval(ctx.program, f2, inline=lambda c, f: None).run()
    matched = None
    for o in te.outcomes:
        for cnd, pl in list(o.conds) + [(o.term, True)]:
            for x in subterms(cnd):
                if x[0] == "m" and x[2] in ("match", "fullmatch") and len(x[3]) == 1:
                    matched = x[3][0]
    for cnds, t, st in te.effects:
        for x in subterms(t):
            if x[0] == "m" and x[2] in ("match", "fullmatch") and len(x[3]) == 1:
                matched = x[3][0]
    W = ("p", f2.params()[0])

    def part(i):
        return ("fmt", ("idx", W, ("c", i)), "")
    want = ("cat", part(0), ("c", "://"), part(1), ("c", ":"), part(2))
    ctx.ob("origin header reconstituted as scheme://host:port from the origin triple, in that order", matched == want,
           f"matched string is {show(matched) if matched else None}", f2.loc())
    # _url_to_origin returns 'null' or a 3-tuple
    f3 = ctx.program.func("autobahn.websocket.protocol._url_to_origin")
    ctx.analysed(f3)
    rets = [s for s in walk_no_defs(f3.node) if isinstance(s, ast.Return)]
    ok = bool(rets) and all((isinstance(r.value, ast.Constant) and r.value.value == "null") or (isinstance(r.value, ast.Tuple) and len(r.value.elts) == 3) for r in rets)
    ctx.ob("_url_to_origin returns 'null' or a (scheme, host, port) triple", ok, "return shapes changed", f3.loc())
    for q in ("autobahn.websocket.protocol.WebSocketServerFactory.resetProtocolOptions", "autobahn.websocket.protocol.WebSocketServerFactory.setProtocolOptions"):
        f4 = ctx.program.func(q)
        st = [s for s in walk_no_defs(f4.node) if isinstance(s, ast.Assign) and is_self_attr(s.targets[0], "allowedOriginsPatterns")]
        ctx.ob(f"{q.split('.')[-1]}: patterns always derived by wildcards2patterns(allowedOrigins)", bool(st) and all(norm.text(s.value) == "wildcards2patterns(self.allowedOrigins)" for s in st),
               "allowedOriginsPatterns assigned from something else", f4.loc())


def rule_answer_subset(ctx):
    ctx.rule("C07.5-answer-subset-of-offer")
    an = get_analysis(ctx)
    fn = ctx.program.func(f"{WSS}.succeedHandshake")
    ctx.analysed(fn)
    g, mf, res = an.get(fn)
    use = [n for n, v in find_assign_nodes(g, "websocket_protocol_in_use")]
    ctx.require(len(use) == 1, "succeedHandshake: websocket_protocol_in_use assignment not found")
    U = use[0]
    F = mf.at(U)
    # evaluated (sa.core.tiny) up to the store of the subprotocol in use, over what onConnect() may hand back: None, an offered subprotocol, one that
    # was not offered -- bare or as the first element of a (protocol, headers) tuple.  Only None / an offered one may reach the store.
    from ..core.tiny import Tiny, Sym
    wsp_cls = ctx.program.cls(WSP)
    consts_ = {s_.targets[0].id: s_.value.value for s_ in wsp_cls.node.body if isinstance(s_, ast.Assign) and len(s_.targets) == 1 and isinstance(s_.targets[0], ast.Name)
               and isinstance(s_.value, ast.Constant) and isinstance(s_.value.value, int)}
    probs = []
    try:
        for what, res_v, want in (("None", None, "store None"), ("an offered subprotocol", "p1", "store p1"), ("a subprotocol the client did not offer", "px", "raise"),
                                  ("(offered, headers)", ("p2", {}), "store p2"), ("(not offered, headers)", ("px", {}), "raise"), ("an empty tuple", (), "store None")):
            env = {"self": Sym("server"), fn.params()[1]: res_v, "self.state": consts_.get("STATE_CONNECTING", 1), "self.websocket_protocols": ["p1", "p2"], "self.log": Sym("log"),
                   "WebSocketProtocol": Sym("class WebSocketProtocol", **consts_)}
            env.update({f"WebSocketProtocol.{k_}": v_ for k_, v_ in consts_.items()})
            t = Tiny(env, default_call=lambda f_, a_, k_=None: Sym(f"<{f_}>"), model_types=True, opaque_globals=True, model_strings=True)
            body = [x for x in fn.node.body if not (isinstance(x, ast.Expr) and isinstance(x.value, ast.Constant))]
            r = t.run(body, stop=lambda st_: st_ is U.ast)
            if r[0] == "stop":
                v_ = t.ev(U.ast.value)
                got = f"store {v_}"
            elif r[0] == "raise":
                got = "raise"
            else:
                got = f"{r[0]} {str(r[1])[:30]}"
            if got != want:
                probs.append(f"onConnect() returns {what}: {got}, expected {want}")
    except AnalysisError as e:
        raise AnalysisError(f"[C07.5-answer-subset-of-offer] succeedHandshake outside the modelled subset: {e}")
    ctx.ob("server: chosen subprotocol must be None or one the client offered (else raise) [6 cells]", not probs, "; ".join(probs[:2]), fn.loc())
    # the checked value: the local tested for membership in the offered list on the way to the store (whatever it is called)
    checked_ = {norm.text(x_.left) for x_ in walk_no_defs(fn.node) if isinstance(x_, ast.Compare) and len(x_.ops) == 1 and isinstance(x_.ops[0], (ast.In, ast.NotIn))
                and norm.text(x_.comparators[0]) == "self.websocket_protocols"}
    ctx.ob("server: the checked value is the one used and announced", norm.text(U.ast.value) in (checked_ or {"protocol"}), "websocket_protocol_in_use not the checked value", fn.loc())
    hdr = [s for s in walk_no_defs(fn.node) if isinstance(s, ast.AugAssign) and "Sec-WebSocket-Protocol" in norm.text(s.value)]
    ctx.ob("server: announced subprotocol is websocket_protocol_in_use", len(hdr) == 1 and "{self.websocket_protocol_in_use}" in norm.text(hdr[0].value), "header value changed", fn.loc())
    # extension responses come only from accepted offers that were parsed from the request
    # roles, not names: the application's verdict, the offer list handed to it, the registry entry, the list of extension answers
    ACC = _assigned_from(fn, lambda v: isinstance(v, ast.Call) and norm.text(v.func) == "self.perMessageCompressionAccept", "accept")
    acc_calls = [c for c in calls_in(fn.node) if norm.text(c.func) == "self.perMessageCompressionAccept" and len(c.args) == 1 and isinstance(c.args[0], ast.Name)]
    OFFERS = acc_calls[0].args[0].id if len(acc_calls) == 1 else "pmceOffers"
    PM = _assigned_from(fn, lambda v: isinstance(v, ast.Subscript) and norm.text(v.value) == "PERMESSAGE_COMPRESSION_EXTENSION", "PMCE")
    appends = [c for c in calls_in(fn.node) if isinstance(c.func, ast.Attribute) and c.func.attr == "append" and isinstance(c.func.value, ast.Name) and c.args
               and norm.text(c.args[0]).endswith(".get_extension_string()")]
    ok = len(appends) == 1 and norm.text(appends[0].args[0]) == f"{ACC}.get_extension_string()"
    ctx.ob("server: extension response built only from the accepted offer", ok, "extensionResponse source changed", fn.loc())
    offers = [c for c in calls_in(fn.node) if norm.text(c.func) == f"{OFFERS}.append"]
    loops = [n for n in walk_no_defs(fn.node) if isinstance(n, ast.For) and norm.text(n.iter) == "self.websocket_extensions"]
    ctx.ob("server: offers are parsed from the client's extension list only", len(offers) == 1 and len(loops) == 1 and any(offers[0] is x for x in ast.walk(loops[0])),
           "offer list no longer fed from the request's extensions", fn.loc())
    acc = [s for s in walk_no_defs(fn.node) if isinstance(s, ast.Assign) and norm.text(s.targets[0]) == ACC]
    ctx.ob("server: accept policy asked with the client's offers", len(acc) == 1 and norm.text(acc[0].value) == f"self.perMessageCompressionAccept({OFFERS})", "accept call changed", fn.loc())
    parse = [(n, c) for n in g.stmt_nodes() for c in node_calls(n) if norm.text(c.func) == f"{PM}['Offer'].parse"]
    ok = len(parse) == 1 and any(lab and lab[0] == "exc" for m, lab in parse[0][0].succ)
    ctx.ob("server: offers that do not parse fail the handshake", ok, "Offer.parse not wrapped", fn.loc())


def rule_request(ctx):
    """The client's request, as terms: GET <resource> / Host: <host>:<port> come from the request options, whose defaults are the factory's
    host/port/resource, which are the components parse_url() extracts -- the resource being the URL's raw path (+ '?' + raw query)."""
    ctx.rule("C07.6-client-request-from-url")
    from ..core.terms import TermEval, show, subterms
    from .c19 import canon
    SELF = ("p", "self")
    fn = ctx.program.func(f"{WSC}._actuallyStartHandshake")
    ctx.analysed(fn)
    te = TermEval(ctx.program, fn, inline=lambda c, f: None).run()
    RO = ("p", fn.params()[1])
    sent = [canon(t) for _, t, _ in te.effects if t[0] == "m" and t[2] == "sendData" and len(t[3]) == 1]
    ctx.require(len(sent) == 1, "_actuallyStartHandshake: the request is not handed to sendData exactly once")

    def find_seq(t, pred):
        for x in subterms(t):
            if isinstance(x, tuple) and x and x[0] == "cat":
                parts = x[1:]
                for i in range(len(parts)):
                    if pred(parts, i):
                        return True
        return False

    def is_c(x, end=None, start=None, eq=None):
        return x[0] == "c" and isinstance(x[1], str) and (end is None or x[1].endswith(end)) and (start is None or x[1].startswith(start)) and (eq is None or x[1] == eq)

    def is_f(x, attr):
        return x == ("fmt", ("attr", RO, attr), "") or x == ("attr", RO, attr)
    ok = find_seq(sent[0], lambda ps, i: i + 2 < len(ps) and is_c(ps[i], eq="GET ") and is_f(ps[i + 1], "resource") and is_c(ps[i + 2], start=" HTTP/1.1\r\n") and i == 0)
    ctx.ob("request line is GET <resource of the request options> HTTP/1.1", ok, "request line changed", fn.loc())
    ok = find_seq(sent[0], lambda ps, i: i + 4 < len(ps) and is_c(ps[i], end="Host: ") and (i == 0 or True) and is_f(ps[i + 1], "host") and is_c(ps[i + 2], eq=":")
                  and is_f(ps[i + 3], "port") and is_c(ps[i + 4], start="\r\n"))
    ctx.ob("Host header is <host>:<port> of the request options", ok, "Host header changed", fn.loc())
    ctx.ob("the request is sent UTF-8 encoded as built", sent[0][3][0][0] == "enc", f"sendData({show(sent[0][3][0])[:60]})", fn.loc())
    sh = ctx.program.func(f"{WSC}.startHandshake")
    go = sh.nested().get("got_options")
    ctx.require(go is not None, "startHandshake.got_options not found")
    tg = TermEval(ctx.program, go, inline=lambda c, f: None).run()
    # (inside the nested function `self` is a free variable: self.x appears as the global-like term ('g', 'self.x'))
    starts = [t[3][0] for _, t, _ in tg.effects if t[0] == "m" and t[2] == "_actuallyStartHandshake" and len(t[3]) == 1] + \
             [t[2][0] for _, t, _ in tg.effects if t[0] == "call" and t[1] == ("g", "self._actuallyStartHandshake") and len(t[2]) == 1]
    GP = ("p", go.params()[0])
    FAC = ("attr", SELF, "factory")
    ok = False
    if len(starts) == 1:
        a_ = starts[0]
        if a_[0] == "phi" and a_[3] == GP and a_[2][0] == "call":
            kw = {k_: v_ for _, k_, v_ in a_[2][3]}
            ok = all(kw.get(k_) in (("attr", FAC, k_), ("g", f"self.factory.{k_}")) for k_ in ("host", "port", "resource")) and \
                a_[1] in (("cmp", "is", GP, ("c", None)), ("cmp", "==", GP, ("c", None)))
    ctx.ob("the handshake is started with the options onConnecting returned, or by default with the factory's host/port/resource", ok,
           f"started with {show(starts[0])[:160] if starts else None}", sh.loc())
    ssp = ctx.program.func("autobahn.websocket.protocol.WebSocketClientFactory.setSessionParameters")
    ctx.analysed(ssp)
    ts = TermEval(ctx.program, ssp, inline=lambda c, f: None).run()
    pu = ctx.program.func("autobahn.websocket.util.parse_url")
    ctx.analysed(pu)
    tp = TermEval(ctx.program, pu, inline=lambda c, f: None).run()
    rets = [canon(o.term) for o in tp.outcomes if o.kind == "return"]
    ctx.require(rets and all(r[0] == "list" and len(r) == 7 for r in rets), "parse_url no longer returns 6-tuples")
    pos = {}
    for k_ in ("host", "port", "resource"):
        v = ts.env.get(f"self.{k_}")
        okv = v is not None and v[0] == "idx" and v[1][0] == "call" and v[1][1][0] == "g" and v[1][1][1].endswith("parse_url") and v[2][0] == "c"
        pos[k_] = v[2][1] if okv else None
    ctx.ob("factory host/port/resource are components of parse_url(url)", all(pos[k_] is not None for k_ in pos) and len(set(pos.values())) == 3, f"{pos}", ssp.loc())
    parsed = None
    for r in rets:
        for x in subterms(r):
            if x[0] == "call" and x[1][0] == "g" and x[1][1].split(".")[-1] in ("urlparse", "urlsplit"):
                parsed = x
    ctx.require(parsed is not None, "parse_url: urlparse()/urlsplit() call not found")
    splitter = parsed[1][1].split(".")[-1]

    def attr(n):
        return ("attr", parsed, n)
    if pos["host"] is not None:
        ctx.ob("parse_url: the host component is the URL's hostname", all(r[1 + pos["host"]] == attr("hostname") for r in rets), "host component changed", pu.loc())
    if pos["port"] is not None:
        okp = all(any(x == attr("port") for x in subterms(r[1 + pos["port"]])) or parsed[0] and any(x == attr("netloc") for x in subterms(r[1 + pos["port"]])) for r in rets)
        ctx.ob("parse_url: the port component is the URL's port (80/443 by scheme when absent)", okp, "port component changed", pu.loc())
    if pos["resource"] is not None:
        probs = []
        for r in rets:
            res_t = r[1 + pos["resource"]]
            leaves = {x for x in subterms(res_t) if x[0] == "attr" and x[1] == parsed}
            calls = [x for x in subterms(res_t) if x[0] in ("call", "m")and x != parsed]
            consts = {x[1] for x in subterms(res_t) if x[0] == "c"} - {None, "", "/", "?"}
            if calls:
                probs.append(f"resource passes through {show(calls[0])[:70]}")
            # urlparse() moves ";parameters" of the last path segment out of .path: the resource is complete only with .params put back
            need = {attr("path"), attr("query")} | ({attr("params")} if splitter == "urlparse" else set())
            if leaves != need:
                probs.append(f"resource built from {sorted(show(x) for x in leaves)} of {splitter}(url)" +
                             ("; urlparse() strips ';parameters' off the last path segment, so ws://host/p;v=1 is requested as /p" if splitter == "urlparse" else ""))
            if consts:
                probs.append(f"resource contains the literal(s) {sorted(map(str, consts))}")
            # path first, then '?', then query
            okq = any(x[0] == "cat" and len(x) == 4 and x[2] == ("c", "?") and any(y == attr("path") for y in subterms(x[1])) and any(y == attr("query") for y in subterms(x[3]))
                      for x in subterms(res_t))
            if not okq:
                probs.append("resource is not <path>?<query>")
        if not probs and splitter == "urlsplit":
            # the term is in the evaluable subset (constants, the splitter's attributes, phi / and / or / comparisons, concatenation):
            # decide it on a grid of (path, query) values -- an empty path must come out as '/', with and without a query
            for pth in ("", "/", "/a/b", "/p%20q"):
                for qry in ("", "k=v", "a=1&b=2"):
                    want = (pth if pth != "" else "/") + ("?" + qry if qry != "" else "")
                    for r in rets:
                        got = _eval_str_term(r[1 + pos["resource"]], {attr("path"): pth, attr("query"): qry})
                        if got is not _UNKNOWN and got != want:
                            probs.append(f"path {pth!r}, query {qry!r}: the resource is {got!r}, expected {want!r}")
        ctx.ob("parse_url: the resource is the URL's path and query as written (not decoded, not re-encoded), '/' for an empty path", not probs, "; ".join(sorted(set(probs))[:2]), pu.loc())


_UNKNOWN = object()


def _eval_str_term(t, env):
    """Value of a (string-valued) term given concrete values for its leaves; _UNKNOWN for anything outside the small subset."""
    if t in env:
        return env[t]
    k = t[0]
    if k == "c":
        return t[1]
    if k == "phi":
        c = _eval_str_term(t[1], env)
        return _UNKNOWN if c is _UNKNOWN else _eval_str_term(t[2] if c else t[3], env)
    if k == "op" and t[1] in ("and", "or"):
        a = _eval_str_term(t[2], env)
        if a is _UNKNOWN:
            return _UNKNOWN
        if t[1] == "and":
            return _eval_str_term(t[3], env) if a else a
        return a if a else _eval_str_term(t[3], env)
    if k == "un" and t[1] == "not":
        a = _eval_str_term(t[2], env)
        return _UNKNOWN if a is _UNKNOWN else (not a)
    if k == "cmp" and t[1] in ("is", "is not", "==", "!="):
        a, b = _eval_str_term(t[2], env), _eval_str_term(t[3], env)
        if a is _UNKNOWN or b is _UNKNOWN:
            return _UNKNOWN
        if t[1] in ("is", "is not"):
            if a is not None and b is not None:
                return _UNKNOWN
            return (a is b) if t[1] == "is" else (a is not b)
        return (a == b) if t[1] == "==" else (a != b)
    if k == "fmt" and len(t) == 3 and t[2] == "":
        a = _eval_str_term(t[1], env)
        return _UNKNOWN if a is _UNKNOWN else format(a, "")
    if k == "cat":
        parts = [_eval_str_term(x, env) for x in t[1:]]
        if any(x is _UNKNOWN or not isinstance(x, str) for x in parts):
            return _UNKNOWN
        return "".join(parts)
    return _UNKNOWN


def rule_escape(ctx):
    ctx.rule("C07.7-no-exception-escapes-handshake")
    an = get_analysis(ctx)
    cg = _cg(ctx)
    ef = ExcFlow(ctx.program, an, callgraph=cg, extra_seeds={"self.data"}, stop=STOP, safe=SAFE)
    # registry entries carry all five keys, so PMCE['...'] cannot raise KeyError
    comp = ctx.program.module("autobahn.websocket.compress")
    dicts = [n for n in ast.walk(comp.tree) if isinstance(n, ast.Dict) and n.keys and all(isinstance(k, ast.Constant) and isinstance(k.value, str) for k in n.keys)
             and {"Offer", "PMCE"} & {k.value for k in n.keys}]
    okreg = len(dicts) >= 1 and all({k.value for k in d.keys} == set(REGISTRY_KEYS) for d in dicts)
    ctx.ob("every PERMESSAGE_COMPRESSION_EXTENSION entry has the keys Offer/OfferAccept/Response/ResponseAccept/PMCE", okreg, "registry entry with missing key", comp.relpath)
    entries = [f"{WSS}.processHandshake", f"{WSC}.processHandshake", f"{WSC}.processProxyConnect", f"{WSS}.succeedHandshake",
               f"{WSC}.processHandshake.<locals>.on_connect_success", f"{WSC}.processHandshake.<locals>.on_connect_failed",
               f"{WSS}.processHandshake.<locals>.forward_error"]
    total = 0
    for q in entries:
        fn = ctx.program.func(q)
        ctx.analysed(fn)
        sites = ef.may_raise(fn)
        seen = set()
        for s in sites:
            if okreg and s.exc == "KeyError" and isinstance(s.node, ast.Subscript) and isinstance(s.node.value, ast.Name) and _registry_entry(s.fn, s.node.value.id):
                continue
            k = f"{s.exc} from `{s.what}` in {s.fn.qualname}"
            if k in seen:
                continue
            seen.add(k)
            total += 1
            ctx.ob(f"{q.split('.')[-2] if '<locals>' not in q else q.split('.')[-3]}.{fn.name}: {k}", False,
                   f"{s.exc} can escape to the networking framework: `{s.what}` on peer-controlled data is neither guarded nor inside a matching try"
                   + (f" ({' <- '.join(s.via)})" if s.via else ""), s.loc())
        ctx.ob(f"{q}: analysed for escapes", True)
    ctx.per_rule[ctx.cur_rule]["risky_sites_examined"] = ef.sites_seen
    ctx.require(ef.sites_seen >= 12, f"only {ef.sites_seen} risky sites examined in the handshake code (expected >= 12)")
    for k in SAFE:
        if k not in ef.used_safe:
            ctx.note(f"safe-table entry {k} no longer matches anything")


def run(ctx):
    rule_server(ctx)
    from .c07_cells import rule_server_cells, rule_header_lines
    rule_header_lines(ctx)
    rule_server_cells(ctx)
    rule_client(ctx)
    from .c07_cells import rule_client_cells
    rule_client_cells(ctx)
    rule_digest(ctx)
    rule_origin(ctx)
    rule_answer_subset(ctx)
    rule_request(ctx)
    rule_escape(ctx)
    # "arbitrarily segmented bytes": on asyncio the reads pass through the adapter's receive queue before they reach the handshake parser
    from .c01 import rule_asyncio_queue
    rule_asyncio_queue(ctx, "C07.9-asyncio-reads-reach-the-handshake-parser-in-order")
