"""C07 - The opening handshake admits exactly the valid peers and never crashes."""
import ast

from ..core.index import AnalysisError, walk_no_defs, calls_in, call_name, kwarg
from ..core.cfg import node_calls
from ..core import norm
from ..core.excflow import ExcFlow
from ..core.flow import CallGraph
from ..spec import rfc6455
from .common import (WSP, WSS, WSC, get_analysis, is_self_attr, self_call, stmt_key, find_assign_nodes, is_test_module)

META = {
    "explanation": "Acceptance-dominance rules: for the server (the as_future(onConnect) site) and the client (state = OPEN) every "
                   "RFC 6455 section 4 obligation must hold as a must-fact at the acceptance node or be a failing test that "
                   "every path to acceptance passes; accept-digest data flow (SHA-1 of key + RFC GUID, base64, compared with the "
                   "digest of the key this client sent); whole-origin regex anchoring; answer-subset-of-offer; request built from "
                   "the URL components; exception-escape analysis of the handshake entry points (risky library operations on "
                   "peer-controlled data must be guarded or caught).",
    "assumptions": ["acceptance of exactly the HTTP grammar for arbitrary octets is not decided (string parsing at run time)",
                    "user callbacks (onConnect, perMessageCompressionAccept) are assumed not to raise unexpectedly; their "
                    "results are application data, not peer data",
                    "generic `raise Exception(...)` statements are state-machine defaults / API misuse, not input driven"],
}

SAFE = {
    ("autobahn.websocket.protocol.parseHttpHeader", "raw[0]"):
        "callers pass self.data[:end_of_header + 4] with end_of_header >= 0, a non-empty string; splitlines() of it has >= 1 line",
    ("autobahn.websocket.protocol.WebSocketProtocol._parseExtensionsHeader", "p[0]"):
        "p = [x.strip() for x in p.split('=')] : split with a separator never returns an empty list",
    ("autobahn.websocket.protocol._is_same_origin", "raise ValueError(\"'websocket_origin' must be a 3-tuple\")"):
        "only called with the result of _url_to_origin, which returns 'null' or a 3-tuple (checked by rule C07.4)",
}
REGISTRY_KEYS = ("Offer", "OfferAccept", "Response", "ResponseAccept", "PMCE")
STOP = {"consumeData", "dropConnection", "sendData", "_onOpen", "startHandshake", "startTLS", "onConnect", "_onConnect",
        "_fail_connection", "onConnecting"}


def _cg(ctx):
    if not hasattr(ctx, "_cg"):
        ctx._cg = CallGraph(ctx.program)
    return ctx._cg


def _fail_return_edges(g, failname="failHandshake"):
    """test nodes with an edge whose successor is `return self.failHandshake(...)`; yields (test, polarity)."""
    out = []
    for n in g.stmt_nodes():
        if n.kind != "test":
            continue
        for m, lab in n.succ:
            if lab and lab[0] in ("T", "F") and m.kind == "stmt" and isinstance(m.ast, ast.Return) and m.ast.value is not None \
                    and isinstance(m.ast.value, ast.Call) and self_call(m.ast.value, failname):
                out.append((n, lab[0] == "T"))
    return out


def _has(facts, *wanted):
    return all(w in facts for w in wanted)


def _token_flag(fn, g, mf, header, token):
    """The local that holds "the comma list of `header` contains `token` (case-insensitive)" and whether it is computed soundly.
    Accepts the flag-loop form (x = False; for u in H.split(','): if u.strip().lower() == tok: x = True) and x = any(... for u in H.split(','))."""
    it = f"self.http_headers['{header}'].split(',')"
    # any(...) form
    for st in walk_no_defs(fn.node):
        if isinstance(st, ast.Assign) and len(st.targets) == 1 and isinstance(st.targets[0], ast.Name) and isinstance(st.value, ast.Call) and \
                norm.text(st.value.func) == "any" and len(st.value.args) == 1 and isinstance(st.value.args[0], (ast.GeneratorExp, ast.ListComp)):
            ge = st.value.args[0]
            if len(ge.generators) == 1 and norm.text(ge.generators[0].iter) == it and not ge.generators[0].ifs and isinstance(ge.generators[0].target, ast.Name):
                v = ge.generators[0].target.id
                at = norm.atoms(ge.elt, True)
                if at == [("eq", f"{v}.strip().lower()", ("c", token), True)]:
                    others = [x for x in walk_no_defs(fn.node) if isinstance(x, ast.Assign) and any(isinstance(t, ast.Name) and t.id == st.targets[0].id for t in x.targets) and x is not st]
                    return st.targets[0].id, not others
    # flag-loop form
    loops = [n for n in g.stmt_nodes() if n.kind == "for" and norm.text(n.ast.iter) == it and isinstance(n.ast.target, ast.Name)]
    if len(loops) == 1:
        v = loops[0].ast.target.id
        trues = [n for n in g.stmt_nodes() if n.kind == "stmt" and isinstance(n.ast, ast.Assign) and isinstance(n.ast.targets[0], ast.Name)
                 and isinstance(n.ast.value, ast.Constant) and n.ast.value.value is True
                 and ("eq", f"{v}.strip().lower()", ("c", token), True) in (mf.at(n) or ())]
        if len(trues) == 1:
            flag = trues[0].ast.targets[0].id
            sets = [n for n in g.stmt_nodes() if n.kind == "stmt" and isinstance(n.ast, ast.Assign) and norm.text(n.ast.targets[0]) == flag]
            falses = [n for n in sets if isinstance(n.ast.value, ast.Constant) and n.ast.value.value is False]
            return flag, len(sets) == 2 and len(falses) == 1 and g.always_preceded_by(loops[0], lambda x: x is falses[0])
    return None, False


def rule_server(ctx):
    ctx.rule("C07.1-server-obligations")
    an = get_analysis(ctx)
    fn = ctx.program.func(f"{WSS}.processHandshake")
    ctx.analysed(fn)
    g, mf, res = an.get(fn)
    acc = [(n, c) for n in g.stmt_nodes() for c in node_calls(n) if call_name(c) == "txaio.as_future" and c.args and norm.text(c.args[0]) == "self.onConnect"]
    ctx.require(len(acc) == 1, "server processHandshake: acceptance site txaio.as_future(self.onConnect, ...) not found")
    A = acc[0][0]
    F = mf.at(A)
    H = "self.http_headers"
    CNT = "http_headers_cnt"

    def single(h):
        return ("lt", ("c", 1), ("e", f"{CNT}['{h}']"), False)

    def present(h):
        return ("in", repr(h), ("e", H), True)

    from .common import local_canon, name_for
    canon = local_canon(fn)
    rl = name_for(fn, "self.http_status_line.split()", canon)
    vs = name_for(fn, "self.http_status_line.split()[2].strip().split('/')", canon)
    if vs.startswith("self.") and rl != "self.http_status_line.split()":
        vs = f"{rl}[2].strip().split('/')"
    key = name_for(fn, "self.http_headers['sec-websocket-key'].strip()", canon)
    version = name_for(fn, "int(self.http_headers['sec-websocket-version'])", canon)
    up_flag, up_ok = _token_flag(fn, g, mf, "upgrade", "websocket")
    co_flag, co_ok = _token_flag(fn, g, mf, "connection", "upgrade")
    obligations = [
        ("request line has exactly 3 parts", [("eq", f"len({rl})", ("c", 3), True)]),
        ("method is GET", [("eq", f"{rl}[0].strip()", ("c", "GET"), True)]),
        ("HTTP version is HTTP/1.1", [("eq", f"len({vs})", ("c", 2), True), ("eq", f"{vs}[0]", ("c", "HTTP"), True), ("eq", f"{vs}[1]", ("c", "1.1"), True)]),
        ("request target has no fragment", [("eq", "fragment", ("c", ""), True)]),
        ("Host header present", [present("host")]),
        ("Host header single", [single("host")]),
        ("Upgrade header present", [present("upgrade")]),
        ("Upgrade header contains websocket", [("truth", up_flag or "?", None, True)]),
        ("Connection header present", [present("connection")]),
        ("Connection header contains upgrade", [("truth", co_flag or "?", None, True)]),
        ("Sec-WebSocket-Version present", [present("sec-websocket-version")]),
        ("Sec-WebSocket-Version single", [single("sec-websocket-version")]),
        ("Sec-WebSocket-Version is a configured version", [("in", version, ("e", "self.versions"), True)]),
        ("Sec-WebSocket-Key present", [present("sec-websocket-key")]),
        ("Sec-WebSocket-Key single", [single("sec-websocket-key")]),
        ("Sec-WebSocket-Key is 24 characters", [("eq", f"len({key})", ("c", 24), True)]),
        ("Sec-WebSocket-Key ends with ==", [("eq", f"{key}[-2:]", ("c", "=="), True)]),
    ]
    for name, facts in obligations:
        ctx.ob(f"server: {name}", _has(F, *facts), f"acceptance (onConnect) is reachable without `{name}` having been established", fn.loc(A.ast))
    # the values the obligations talk about are derived from the received request (roles found by their definitions, not by name)
    ctx.ob("server: the request line is split into its parts", True, "", fn.loc())
    ctx.ob("server: key is the Sec-WebSocket-Key header", key != "" , "", fn.loc())
    for flag, okf, header, token in ((up_flag, up_ok, "upgrade", "websocket"), (co_flag, co_ok, "connection", "upgrade")):
        ctx.ob(f"server: a flag is set only for a '{token}' token of the {header} header (case-insensitive, comma list)", flag is not None and okf,
               f"no sound computation of \"{header} header contains {token}\" found", fn.loc())
    # key alphabet
    loops = [n for n in g.stmt_nodes() if n.kind == "for" and norm.text(n.ast.iter) == f"{key}[:-2]"]
    ok = False
    if len(loops) == 1:
        cv = norm.text(loops[0].ast.target)
        for t, pol in _fail_return_edges(g):
            at = norm.atoms(t.ast, pol, res)
            for f in at:
                if f[0] == "in" and f[1] == cv and f[2][0] == "c" and not f[3]:
                    alpha = f[2][1] if isinstance(f[2][1], str) else ""
                    import string
                    ok = set(alpha) == set(string.ascii_letters + string.digits + "+/")
    ctx.ob("server: Sec-WebSocket-Key characters restricted to the base64 alphabet", ok, "alphabet test over key[:-2] missing or alphabet changed", fn.loc())
    # protocol list duplicate-free
    loops = [n for n in g.stmt_nodes() if n.kind == "for" and norm.text(n.ast.iter) == "protocols"]
    ok = False
    if len(loops) == 1:
        cv = norm.text(loops[0].ast.target)
        for t, pol in _fail_return_edges(g):
            at = norm.atoms(t.ast, pol, res)
            if any(f[0] == "in" and f[1] == cv and f[3] for f in at):
                coll = [f[2][1] for f in at if f[0] == "in" and f[1] == cv][0]
                stores = [n for n in g.stmt_nodes() if n.kind == "stmt" and isinstance(n.ast, ast.Assign) and norm.text(n.ast.targets[0]) == f"{coll}[{cv}]"]
                ok = bool(stores)
    ctx.ob("server: duplicate subprotocols rejected", ok, "duplicate check over the Sec-WebSocket-Protocol list missing", fn.loc())
    sp = [n for n, v in find_assign_nodes(g, "websocket_protocols")]
    from .common import canon_text
    ctx.ob("server: client's protocol list kept in the order sent",
           any("self.http_headers['sec-websocket-protocol']" in canon_text(fn, n.ast.value, canon) and "split(',')" in canon_text(fn, n.ast.value, canon) for n in sp),
           "websocket_protocols no longer the parsed header list", fn.loc())
    # origin policy
    oi = [n for n in g.stmt_nodes() if n.kind == "test" and norm.atoms(n.ast, True, res) == [("truth", "origin_is_allowed", None, False)]]
    ho = [n for n in g.stmt_nodes() if n.kind == "test" and norm.atoms(n.ast, True, res) == [("truth", "have_origin", None, True)]]
    ok = len(oi) == 1 and len(ho) == 1 and (oi[0], True) in _fail_return_edges(g)
    if ok:
        tsucc = [m for m, lab in ho[0].succ if lab and lab[0] == "T"]
        ok = all(not g.path_exists(m, A, avoid=lambda x: x is oi[0]) or m is oi[0] for m in tsucc)
    ctx.ob("server: with an Origin header, acceptance requires origin_is_allowed", ok, "origin check can be bypassed", fn.loc())
    vals = [n for n in g.stmt_nodes() if n.kind == "stmt" and isinstance(n.ast, ast.Assign) and norm.text(n.ast.targets[0]) == "origin_is_allowed"]
    okv = len(vals) == 2
    for n in vals:
        v = n.ast.value
        if isinstance(v, ast.Constant) and v.value is True:
            okv = okv and _has(mf.at(n), ("eq", "origin_tuple", ("c", "null"), True), ("truth", "self.factory.allowNullOrigin", None, True))
        elif isinstance(v, ast.Call) and call_name(v) == "_is_same_origin":
            okv = okv and norm.text(v.args[0]) == "origin_tuple" and norm.text(v.args[3]) == "self.allowedOriginsPatterns"
        else:
            okv = False
    ctx.ob("server: origin allowed only by null-origin policy or _is_same_origin(origin, ..., allowedOriginsPatterns)", okv, "origin decision changed", fn.loc())
    hv = [n for n in g.stmt_nodes() if n.kind == "stmt" and isinstance(n.ast, ast.Assign) and norm.text(n.ast.targets[0]) == "have_origin"]
    okh = len(hv) == 2 and all((norm.text(n.ast.value) == "True") == (("in", "websocket_origin_header_key", ("e", H), True) in mf.at(n)) for n in hv)
    ctx.ob("server: have_origin iff the origin header is present", okh, "have_origin logic changed", fn.loc())
    trueh = [n for n in hv if norm.text(n.ast.value) == "True"]
    if trueh:
        ctx.ob("server: Origin header single", ("lt", ("c", 1), ("e", f"{CNT}[websocket_origin_header_key]"), False) in mf.at(trueh[0]), "duplicate Origin headers accepted", fn.loc())
        ot = [n for n in g.stmt_nodes() if n.kind == "stmt" and isinstance(n.ast, ast.Assign) and norm.text(n.ast.targets[0]) == "origin_tuple"]
        ctx.ob("server: origin parsed by _url_to_origin from the header", len(ot) == 1 and norm.text(ot[0].ast.value) == "_url_to_origin(self.websocket_origin)", "origin parse changed", fn.loc())
    # extensions header single
    ex = [n for n, v in find_assign_nodes(g, "websocket_extensions") if isinstance(v, ast.Call)]
    ok = len(ex) == 1 and ("lt", ("c", 1), ("e", f"{CNT}['sec-websocket-extensions']"), False) in mf.at(ex[0]) and \
        norm.text(ex[0].ast.value) == "self._parseExtensionsHeader(self.http_headers['sec-websocket-extensions'])"
    ctx.ob("server: Sec-WebSocket-Extensions parsed only when single", ok, "extensions header handling changed", fn.loc())
    # connection limit
    lim = [n for n in g.stmt_nodes() if n.kind == "test" and set(norm.atoms(n.ast, True, res)) ==
           {("lt", ("c", 0), ("e", "self.maxConnections"), True), ("lt", ("e", "self.maxConnections"), ("e", "self.factory.countConnections"), True)}]
    ok = len(lim) == 1 and not any(g.path_exists(m, A) for m, lab in lim[0].succ if lab and lab[0] == "T") and g.always_preceded_by(A, lambda x: x is lim[0])
    ctx.ob("server: connection limit checked before acceptance", ok, "maxConnections test missing or acceptance reachable when over the limit", fn.loc())
    # every failing edge returns (no fall-through after failHandshake)
    for n in g.stmt_nodes():
        for c in node_calls(n):
            if self_call(c, "failHandshake"):
                ctx.ob(f"server: `{stmt_key(c)[:60]}` ends processing", not g.path_exists(n, A),
                       "after failHandshake() the acceptance site is still reachable", fn.loc(c))
    # stored key is the validated key
    wk = [n for n, v in find_assign_nodes(g, "_wskey")]
    ctx.ob("server: the validated key is the one remembered for the accept digest", len(wk) == 1 and norm.text(wk[0].ast.value) == "key" and
           g.always_preceded_by(A, lambda x: x is wk[0]), "_wskey not assigned from the validated key", fn.loc())


def rule_client(ctx):
    ctx.rule("C07.2-client-obligations")
    an = get_analysis(ctx)
    fn = ctx.program.func(f"{WSC}.processHandshake")
    ctx.analysed(fn)
    g, mf, res = an.get(fn)
    S_OPEN = ctx.program.class_const(ctx.program.cls(WSP), "STATE_OPEN")
    acc = [n for n, v in find_assign_nodes(g, "state") if norm.key(v, res) == ("c", S_OPEN)]
    ctx.require(len(acc) == 1, "client processHandshake: state = OPEN not found")
    A = acc[0]
    F = mf.at(A)
    H, CNT = "self.http_headers", "http_headers_cnt"
    from .common import local_canon, name_for, canon_text
    canon = local_canon(fn)
    sl = name_for(fn, "self.http_status_line.split()", canon)
    http_version = name_for(fn, "self.http_status_line.split()[0].strip()", canon)
    if http_version.startswith("self.") and sl != "self.http_status_line.split()":
        http_version = f"{sl}[0].strip()"
    status_code = name_for(fn, "int(self.http_status_line.split()[1].strip())", canon)
    if status_code.startswith("int(self.") and sl != "self.http_status_line.split()":
        status_code = f"int({sl}[1].strip())"
    got = name_for(fn, "self.http_headers['sec-websocket-accept'].strip()", canon)
    co_flag, co_ok = _token_flag(fn, g, mf, "connection", "upgrade")
    # the expected digest: the local compared with the received one
    expected = None
    for f in F or ():
        if f[0] == "eq" and f[3] and isinstance(f[2], tuple) and f[2][0] == "e" and got in (f[1], f[2][1]):
            expected = f[2][1] if f[1] == got else f[1]
    obligations = [
        ("status line has >= 2 parts", [("lt", ("e", f"len({sl})"), ("c", 2), False)]),
        ("HTTP version is HTTP/1.1", [("eq", http_version, ("c", "HTTP/1.1"), True)]),
        ("status code is 101", [("eq", status_code, ("c", 101), True)]),
        ("Upgrade header present", [("in", "'upgrade'", ("e", H), True)]),
        ("Upgrade header is websocket", [("eq", "self.http_headers['upgrade'].strip().lower()", ("c", "websocket"), True)]),
        ("Connection header present", [("in", "'connection'", ("e", H), True)]),
        ("Connection header contains upgrade", [("truth", co_flag or "?", None, True)]),
        ("Sec-WebSocket-Accept present", [("in", "'sec-websocket-accept'", ("e", H), True)]),
        ("Sec-WebSocket-Accept single", [("lt", ("c", 1), ("e", f"{CNT}['sec-websocket-accept']"), False)]),
    ]
    ctx.ob("client: Sec-WebSocket-Accept equals the expected digest", expected is not None,
           "state = OPEN is reachable without the received Sec-WebSocket-Accept having been compared for equality", fn.loc(A.ast))
    ctx._c07_expected_digest = expected
    for name, facts in obligations:
        ctx.ob(f"client: {name}", _has(F, *facts), f"state = OPEN is reachable without `{name}` having been established", fn.loc(A.ast))
    ctx.ob("client: a flag is set only for an 'upgrade' token of the connection header", co_flag is not None and co_ok,
           "no sound computation of \"connection header contains upgrade\" found", fn.loc())
    # extensions: each one known, not repeated, parsed ok, accepted
    loops = [n for n in g.stmt_nodes() if n.kind == "for" and norm.text(n.ast.iter) == "websocket_extensions"]
    ctx.require(len(loops) == 1, "client: extension loop not found")
    L = loops[0]
    ext_parse = [n for n, v in [(n, n.ast.value) for n in g.stmt_nodes() if n.kind == "stmt" and isinstance(n.ast, ast.Assign) and norm.text(n.ast.targets[0]) == "websocket_extensions"]]
    ok = len(ext_parse) == 1 and ("lt", ("c", 1), ("e", f"{CNT}['sec-websocket-extensions']"), False) in mf.at(ext_parse[0])
    ctx.ob("client: Sec-WebSocket-Extensions single", ok, "duplicate extensions header accepted", fn.loc())
    pm = [n for n, v in find_assign_nodes(g, "_perMessageCompress")]
    ctx.require(len(pm) == 1, "client: PMCE activation site not found")
    P = pm[0]
    FP = mf.at(P)
    ctx.ob("client: extension must be a known compression extension", ("in", "extension", ("e", "PERMESSAGE_COMPRESSION_EXTENSION"), True) in FP, "PMCE created for unknown extension", fn.loc(P.ast))
    ctx.ob("client: a second compression extension is refused", ("is", "self._perMessageCompress", ("c", None), True) in FP, "repeated PMCE not refused", fn.loc(P.ast))
    ctx.ob("client: application accept policy approved", ("is", "accept", ("c", None), False) in FP, "PMCE created although accept is None", fn.loc(P.ast))
    # unknown extension fails: the F edge of `extension in REGISTRY` leads to return failHandshake
    known = [n for n in g.stmt_nodes() if n.kind == "test" and norm.atoms(n.ast, True, res) == [("in", "extension", ("e", "PERMESSAGE_COMPRESSION_EXTENSION"), True)]]
    ok = len(known) == 1 and (known[0], False) in _fail_return_edges(g)
    ctx.ob("client: an extension it does not know fails the handshake", ok, "unknown extensions in the response are tolerated", fn.loc())
    # parse wrapped
    parse = [(n, c) for n in g.stmt_nodes() for c in node_calls(n) if norm.text(c.func) == "PMCE['Response'].parse"]
    ok = len(parse) == 1 and any(lab and lab[0] == "exc" for m, lab in parse[0][0].succ)
    hs = [m for m, lab in parse[0][0].succ if lab and lab[0] == "exc"] if parse else []
    ok = ok and all(any(isinstance(s.ast, ast.Return) and isinstance(s.ast.value, ast.Call) and self_call(s.ast.value, "failHandshake") for s, _ in h.succ) for h in hs)
    ctx.ob("client: response parameters that do not parse fail the handshake", bool(ok), "Response.parse not wrapped into try -> failHandshake", fn.loc())
    ap = [n for n in g.stmt_nodes() if n.kind == "stmt" and isinstance(n.ast, ast.Assign) and norm.text(n.ast.targets[0]) == "accept"]
    ctx.ob("client: accept policy asked with the parsed response", len(ap) == 1 and norm.text(ap[0].ast.value) == "self.perMessageCompressionAccept(pmceResponse)", "accept call changed", fn.loc())
    # subprotocol
    spn = [n for n, v in find_assign_nodes(g, "websocket_protocol_in_use") if norm.text(v) != "None"]
    spv = name_for(fn, "str(self.http_headers['sec-websocket-protocol'].strip())", canon)
    if spv.startswith("str("):
        spv = name_for(fn, "self.http_headers['sec-websocket-protocol'].strip()", canon)
    ok = len(spn) == 1 and ("in", spv, ("e", "self.factory.protocols"), True) in mf.at(spn[0]) and \
        ("lt", ("c", 1), ("e", f"{CNT}['sec-websocket-protocol']"), False) in mf.at(spn[0]) and norm.text(spn[0].ast.value) == spv
    ctx.ob("client: selected subprotocol must be one it requested, header single", ok, "subprotocol check changed", fn.loc())
    for n in g.stmt_nodes():
        for c in node_calls(n):
            if self_call(c, "failHandshake"):
                ctx.ob(f"client: `{stmt_key(c)[:60]}` ends processing", not g.path_exists(n, A), "after failHandshake() state = OPEN is still reachable", fn.loc(c))
    # failure path drops
    for q, must in ((f"{WSC}.failHandshake", "dropConnection"), (f"{WSS}.failHandshake", "dropConnection"), (f"{WSS}.failHandshake", "sendHttpErrorResponse")):
        f2 = ctx.program.func(q)
        g2, mf2, res2 = an.get(f2)
        ctx.ob(f"{q} always reaches {must}", g2.always_followed_by(g2.entry, lambda x: any(self_call(c, must) for c in node_calls(x))), "failure path changed", f2.loc())


def rule_digest(ctx):
    ctx.rule("C07.3-accept-digest")
    wsp = ctx.program.cls(WSP)
    try:
        magic = ctx.program.class_const(wsp, "_WS_MAGIC")
    except KeyError:
        magic = None
    ctx.ob("_WS_MAGIC is the RFC 6455 GUID", magic == rfc6455.GUID, f"_WS_MAGIC = {magic!r}", wsp.loc())
    for q, keyexpr in ((f"{WSS}.succeedHandshake", "key.encode('utf8')"), (f"{WSC}.processHandshake", "self.websocket_key")):
        fn = ctx.program.func(q)
        ctx.analysed(fn)
        sha = [s for s in walk_no_defs(fn.node) if isinstance(s, ast.Assign) and norm.text(s.targets[0]) == "sha1"]
        ctx.ob(f"{q}: digest is SHA-1", len(sha) == 1 and norm.text(sha[0].value) == "hashlib.sha1()", f"sha1 = {[norm.text(s.value) for s in sha]}", fn.loc())
        upd = [c for c in calls_in(fn.node) if norm.text(c.func) == "sha1.update"]
        ok = len(upd) == 1 and norm.text(upd[0].args[0]) == f"{keyexpr} + WebSocketProtocol._WS_MAGIC"
        ctx.ob(f"{q}: digest input is key + GUID", ok, f"update({norm.text(upd[0].args[0]) if upd else None})", fn.loc())
        acc = [s for s in walk_no_defs(fn.node) if isinstance(s, ast.Assign) and norm.text(s.targets[0]) == "sec_websocket_accept"]
        okb = len(acc) == 1 and norm.text(acc[0].value) in ("base64.b64encode(sha1.digest())", "base64.b64encode(sha1.digest()).decode()")
        ctx.ob(f"{q}: accept value is base64 of the digest", okb, f"{[norm.text(s.value) for s in acc]}", fn.loc())
    fn = ctx.program.func(f"{WSS}.succeedHandshake")
    keys = [s for s in walk_no_defs(fn.node) if isinstance(s, ast.Assign) and norm.text(s.targets[0]) == "key"]
    ctx.ob("server: digest key is the key stored by processHandshake", len(keys) == 1 and norm.text(keys[0].value) == "self._wskey", "key source changed", fn.loc())
    sent = [s for s in walk_no_defs(fn.node) if isinstance(s, ast.AugAssign) and "Sec-WebSocket-Accept" in norm.text(s.value)]
    ctx.ob("server: response carries the computed digest", len(sent) == 1 and "sec_websocket_accept.decode()" in norm.text(sent[0].value), "accept header value changed", fn.loc())
    fn = ctx.program.func(f"{WSC}._actuallyStartHandshake")
    ctx.analysed(fn)
    ks = [s for s in walk_no_defs(fn.node) if isinstance(s, ast.Assign) and is_self_attr(s.targets[0], "websocket_key")]
    ctx.ob("client: fresh 16-byte random key, base64", len(ks) == 1 and norm.text(ks[0].value) == "base64.b64encode(os.urandom(16))", f"{[norm.text(s.value) for s in ks]}", fn.loc())
    sent = [s for s in walk_no_defs(fn.node) if isinstance(s, ast.AugAssign) and "Sec-WebSocket-Key" in norm.text(s.value)]
    ctx.ob("client: the key it will verify against is the key it sends", len(sent) == 1 and "self.websocket_key.decode()" in norm.text(sent[0].value), "sent key differs from stored key", fn.loc())


def rule_origin(ctx):
    ctx.rule("C07.4-whole-origin-match")
    import re._parser as sre_parse
    fn = ctx.program.func("autobahn.util.wildcards2patterns")
    ctx.analysed(fn)
    comps = [c for c in calls_in(fn.node) if call_name(c) == "re.compile"]
    ctx.require(len(comps) == 1, "wildcards2patterns: re.compile not found")
    e = comps[0].args[0]
    # left-assoc concat: first operand literal '^', last operand literal '$'
    parts = []

    def flat(x):
        if isinstance(x, ast.BinOp) and isinstance(x.op, ast.Add):
            flat(x.left)
            flat(x.right)
        else:
            parts.append(x)

    flat(e)
    ok = len(parts) >= 3 and isinstance(parts[0], ast.Constant) and isinstance(parts[-1], ast.Constant)
    if ok:
        try:
            head = sre_parse.parse(parts[0].value + "x")
            tail = sre_parse.parse("x" + parts[-1].value)
            ok = str(head[0][0]) == "AT" and str(head[0][1]) == "AT_BEGINNING" and str(tail[-1][0]) == "AT" and str(tail[-1][1]) == "AT_END"
        except Exception:
            ok = False
    ctx.ob("origin patterns are anchored at both ends", ok, "wildcard pattern regex is not ^...$ anchored: a prefix/suffix of the origin would match", fn.loc(comps[0]))
    mid = [norm.text(p) for p in parts[1:-1]]
    ctx.ob("wildcard translation escapes '.' and maps '*' to '.*'", mid == ["wc.replace('.', '\\\\.').replace('*', '.*')"], f"translation {mid}", fn.loc())
    f2 = ctx.program.func("autobahn.websocket.protocol._is_same_origin")
    ctx.analysed(f2)
    m = [c for c in calls_in(f2.node) if isinstance(c.func, ast.Attribute) and c.func.attr in ("match", "search", "fullmatch", "findall")]
    ok = len(m) == 1 and m[0].func.attr in ("match", "fullmatch") and len(m[0].args) == 1
    ctx.ob("origin compared with .match on the reconstituted scheme://host:port", ok, f"{[ast.unparse(c) for c in m]}", f2.loc())
    # the string handed to the pattern, as a term over the origin triple (f-string / format / concatenation are the same term)
    from ..core.terms import TermEval, show, subterms
    te = TermEval(ctx.program, f2, inline=lambda c, f: None).run()
    matched = None
    for o in te.outcomes:
        for cnd, pl in list(o.conds) + [(o.term, True)]:
            for x in subterms(cnd):
                if x[0] == "m" and x[2] in ("match", "fullmatch") and len(x[3]) == 1:
                    matched = x[3][0]
    for cnds, t, st in te.effects:
        for x in subterms(t):
            if x[0] == "m" and x[2] in ("match", "fullmatch") and len(x[3]) == 1:
                matched = x[3][0]
    W = ("p", f2.params()[0])

    def part(i):
        return ("fmt", ("idx", W, ("c", i)), "")
    want = ("cat", part(0), ("c", "://"), part(1), ("c", ":"), part(2))
    ctx.ob("origin header reconstituted as scheme://host:port from the origin triple, in that order", matched == want,
           f"matched string is {show(matched) if matched else None}", f2.loc())
    # _url_to_origin returns 'null' or a 3-tuple
    f3 = ctx.program.func("autobahn.websocket.protocol._url_to_origin")
    ctx.analysed(f3)
    rets = [s for s in walk_no_defs(f3.node) if isinstance(s, ast.Return)]
    ok = bool(rets) and all((isinstance(r.value, ast.Constant) and r.value.value == "null") or (isinstance(r.value, ast.Tuple) and len(r.value.elts) == 3) for r in rets)
    ctx.ob("_url_to_origin returns 'null' or a (scheme, host, port) triple", ok, "return shapes changed", f3.loc())
    for q in ("autobahn.websocket.protocol.WebSocketServerFactory.resetProtocolOptions", "autobahn.websocket.protocol.WebSocketServerFactory.setProtocolOptions"):
        f4 = ctx.program.func(q)
        st = [s for s in walk_no_defs(f4.node) if isinstance(s, ast.Assign) and is_self_attr(s.targets[0], "allowedOriginsPatterns")]
        ctx.ob(f"{q.split('.')[-1]}: patterns always derived by wildcards2patterns(allowedOrigins)", bool(st) and all(norm.text(s.value) == "wildcards2patterns(self.allowedOrigins)" for s in st),
               "allowedOriginsPatterns assigned from something else", f4.loc())


def rule_answer_subset(ctx):
    ctx.rule("C07.5-answer-subset-of-offer")
    an = get_analysis(ctx)
    fn = ctx.program.func(f"{WSS}.succeedHandshake")
    ctx.analysed(fn)
    g, mf, res = an.get(fn)
    use = [n for n, v in find_assign_nodes(g, "websocket_protocol_in_use")]
    ctx.require(len(use) == 1, "succeedHandshake: websocket_protocol_in_use assignment not found")
    U = use[0]
    F = mf.at(U)
    # reaching U means: protocol is None or protocol in self.websocket_protocols -> the raising test dominates
    tests = [n for n in g.stmt_nodes() if n.kind == "test" and "protocol" in norm.mentions_of(n.ast) and "self.websocket_protocols" in norm.mentions_of(n.ast)]
    ok = len(tests) == 1 and g.always_preceded_by(U, lambda x: x is tests[0])
    if ok:
        at = set(norm.atoms(tests[0].ast, True, res))
        ok = at == {("is", "protocol", ("c", None), False), ("in", "protocol", ("e", "self.websocket_protocols"), False)}
        tb = [m for m, lab in tests[0].succ if lab and lab[0] == "T"]
        ok = ok and all(m.kind == "stmt" and isinstance(m.ast, ast.Raise) for m in tb)
    ctx.ob("server: chosen subprotocol must be None or one the client offered (else raise)", bool(ok), "subprotocol membership check changed", fn.loc())
    ctx.ob("server: the checked value is the one used and announced", norm.text(U.ast.value) == "protocol", "websocket_protocol_in_use not the checked value", fn.loc())
    hdr = [s for s in walk_no_defs(fn.node) if isinstance(s, ast.AugAssign) and "Sec-WebSocket-Protocol" in norm.text(s.value)]
    ctx.ob("server: announced subprotocol is websocket_protocol_in_use", len(hdr) == 1 and "{self.websocket_protocol_in_use}" in norm.text(hdr[0].value), "header value changed", fn.loc())
    # extension responses come only from accepted offers that were parsed from the request
    appends = [c for c in calls_in(fn.node) if norm.text(c.func) == "extensionResponse.append"]
    ok = len(appends) == 1 and norm.text(appends[0].args[0]) == "accept.get_extension_string()"
    ctx.ob("server: extension response built only from the accepted offer", ok, "extensionResponse source changed", fn.loc())
    offers = [c for c in calls_in(fn.node) if norm.text(c.func) == "pmceOffers.append"]
    loops = [n for n in walk_no_defs(fn.node) if isinstance(n, ast.For) and norm.text(n.iter) == "self.websocket_extensions"]
    ctx.ob("server: offers are parsed from the client's extension list only", len(offers) == 1 and len(loops) == 1 and any(offers[0] is x for x in ast.walk(loops[0])),
           "offer list no longer fed from the request's extensions", fn.loc())
    acc = [s for s in walk_no_defs(fn.node) if isinstance(s, ast.Assign) and norm.text(s.targets[0]) == "accept"]
    ctx.ob("server: accept policy asked with the client's offers", len(acc) == 1 and norm.text(acc[0].value) == "self.perMessageCompressionAccept(pmceOffers)", "accept call changed", fn.loc())
    parse = [(n, c) for n in g.stmt_nodes() for c in node_calls(n) if norm.text(c.func) == "PMCE['Offer'].parse"]
    ok = len(parse) == 1 and any(lab and lab[0] == "exc" for m, lab in parse[0][0].succ)
    ctx.ob("server: offers that do not parse fail the handshake", ok, "Offer.parse not wrapped", fn.loc())


def rule_request(ctx):
    ctx.rule("C07.6-client-request-from-url")
    fn = ctx.program.func(f"{WSC}._actuallyStartHandshake")
    ctx.analysed(fn)
    first = [s for s in walk_no_defs(fn.node) if isinstance(s, ast.Assign) and norm.text(s.targets[0]) == "request"]
    ok = len(first) == 1 and isinstance(first[0].value, ast.JoinedStr) and norm.text(first[0].value) == "f'GET {request_options.resource} HTTP/1.1\\r\\n'"
    ctx.ob("request line is GET <resource> HTTP/1.1", ok, f"{norm.text(first[0].value) if first else None}", fn.loc())
    host = [s for s in walk_no_defs(fn.node) if isinstance(s, ast.AugAssign) and norm.text(s.value).startswith("f'Host:")]
    ctx.ob("Host header is host:port of the request options", len(host) == 1 and norm.text(host[0].value) == "f'Host: {request_options.host}:{request_options.port}\\r\\n'", "Host header changed", fn.loc())
    sh = ctx.program.func(f"{WSC}.startHandshake")
    go = sh.nested().get("got_options")
    ctx.require(go is not None, "startHandshake.got_options not found")
    cr = [c for c in calls_in(go.node) if call_name(c) == "ConnectingRequest"]
    ok = len(cr) == 1 and {k.arg: norm.text(k.value) for k in cr[0].keywords if k.arg in ("host", "port", "resource")} == \
        {"host": "self.factory.host", "port": "self.factory.port", "resource": "self.factory.resource"}
    ctx.ob("default request options take host/port/resource from the factory", ok, "ConnectingRequest defaults changed", sh.loc())
    calls = [c for c in calls_in(go.node) if self_call(c, "_actuallyStartHandshake")]
    ctx.ob("handshake started with those options", len(calls) == 1 and norm.text(calls[0].args[0]) == "request_options", "changed", sh.loc())
    ssp = ctx.program.func("autobahn.websocket.protocol.WebSocketClientFactory.setSessionParameters")
    ctx.analysed(ssp)
    up = [s for s in walk_no_defs(ssp.node) if isinstance(s, ast.Assign) and isinstance(s.targets[0], ast.Tuple) and isinstance(s.value, ast.Call) and call_name(s.value) == "parse_url"]
    ok = False
    if len(up) == 1:
        names = [norm.text(t) for t in up[0].targets[0].elts]
        wants = {"host": None, "port": None, "resource": None}
        st = {norm.text(s.targets[0]): norm.text(s.value) for s in walk_no_defs(ssp.node) if isinstance(s, ast.Assign) and is_self_attr(s.targets[0])}
        ok = all(st.get(f"self.{k}") == k and k in names for k in wants)
    ctx.ob("factory host/port/resource are parse_url(url) components", ok, "setSessionParameters no longer stores the parsed URL components", ssp.loc())
    pu = ctx.program.func("autobahn.websocket.util.parse_url")
    ctx.analysed(pu)
    rets = [s for s in walk_no_defs(pu.node) if isinstance(s, ast.Return) and isinstance(s.value, ast.Tuple)]
    ctx.ob("parse_url returns (isSecure, host, port, resource, path, params)",
           bool(rets) and all(len(r.value.elts) == 6 and norm.text(r.value.elts[1]) == "parsed.hostname" and norm.text(r.value.elts[3]) == "resource"
                              and "port" in norm.text(r.value.elts[2]) or "uds" in norm.text(r.value.elts[2]) for r in rets),
           "return tuple changed", pu.loc())
    if up:
        ctx.ob("factory unpacks parse_url in the same order", [norm.text(t).replace("self.", "") for t in up[0].targets[0].elts][:4] == ["isSecure", "host", "port", "resource"], "unpack order changed", ssp.loc())


def rule_escape(ctx):
    ctx.rule("C07.7-no-exception-escapes-handshake")
    an = get_analysis(ctx)
    cg = _cg(ctx)
    ef = ExcFlow(ctx.program, an, callgraph=cg, extra_seeds={"self.data"}, stop=STOP, safe=SAFE)
    # registry entries carry all five keys, so PMCE['...'] cannot raise KeyError
    comp = ctx.program.module("autobahn.websocket.compress")
    dicts = [n for n in ast.walk(comp.tree) if isinstance(n, ast.Dict) and n.keys and all(isinstance(k, ast.Constant) and isinstance(k.value, str) for k in n.keys)
             and {"Offer", "PMCE"} & {k.value for k in n.keys}]
    okreg = len(dicts) >= 1 and all({k.value for k in d.keys} == set(REGISTRY_KEYS) for d in dicts)
    ctx.ob("every PERMESSAGE_COMPRESSION_EXTENSION entry has the keys Offer/OfferAccept/Response/ResponseAccept/PMCE", okreg, "registry entry with missing key", comp.relpath)
    entries = [f"{WSS}.processHandshake", f"{WSC}.processHandshake", f"{WSC}.processProxyConnect", f"{WSS}.succeedHandshake",
               f"{WSC}.processHandshake.<locals>.on_connect_success", f"{WSC}.processHandshake.<locals>.on_connect_failed",
               f"{WSS}.processHandshake.<locals>.forward_error"]
    total = 0
    for q in entries:
        fn = ctx.program.func(q)
        ctx.analysed(fn)
        sites = ef.may_raise(fn)
        seen = set()
        for s in sites:
            if okreg and s.exc == "KeyError" and s.what.startswith("PMCE["):
                continue
            k = f"{s.exc} from `{s.what}` in {s.fn.qualname}"
            if k in seen:
                continue
            seen.add(k)
            total += 1
            ctx.ob(f"{q.split('.')[-2] if '<locals>' not in q else q.split('.')[-3]}.{fn.name}: {k}", False,
                   f"{s.exc} can escape to the networking framework: `{s.what}` on peer-controlled data is neither guarded nor inside a matching try"
                   + (f" ({' <- '.join(s.via)})" if s.via else ""), s.loc())
        ctx.ob(f"{q}: analysed for escapes", True)
    ctx.per_rule[ctx.cur_rule]["risky_sites_examined"] = ef.sites_seen
    ctx.require(ef.sites_seen >= 12, f"only {ef.sites_seen} risky sites examined in the handshake code (expected >= 12)")
    for k in SAFE:
        if k not in ef.used_safe:
            ctx.note(f"safe-table entry {k} no longer matches anything")


def run(ctx):
    rule_server(ctx)
    rule_client(ctx)
    rule_digest(ctx)
    rule_origin(ctx)
    rule_answer_subset(ctx)
    rule_request(ctx)
    rule_escape(ctx)
