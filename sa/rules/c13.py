"""C13 - WAMP transports attach a session only after valid negotiation and fail closed."""
import ast
import math

import numpy as np

from ..core.index import AnalysisError, walk_no_defs, calls_in, call_name, kwarg
from ..core.cfg import node_calls
from ..core import norm
from ..core.vec import Vec, Opaque, OptVec, SliceVal
from ..core.excflow import ExcFlow
from ..core.flow import CallGraph
from .common import get_analysis, is_self_attr, self_call, stmt_key

META = {
    "explanation": "Decision-table extraction of the four RawSocket handshake codecs (Twisted server/client dataReceived, asyncio "
                   "parse_handshake + server/client process_handshake) over all 2^16 values of octets 1-2 (x reserved-octet classes): a "
                   "session is attached iff magic == 0x7F and the serializer nibble is supported / equals the requested one, the send limit "
                   "is 2^(9+exp), the reply/request octet is (exp<<4)|serializer; limits guarded before any write/slice; exception ladders "
                   "of the receive functions (catch-all ends in abort/close; on WebSocket protocol-level errors map to 1002, others 1011); "
                   "abort() of both RawSocket siblings must not depend on an attached session; subprotocol selection in the client's "
                   "order; serializer ids unique within 1..15.",
    "exhaustive": True,
    "assumptions": ["intact ordered delivery under all segmentations and all negotiated limits at run time are not decided",
                    "Twisted sets self.transport before dataReceived; factory._max_message_size is the default 2**24 in the extracted table",
                    "Twisted accepts non-zero reserved octets, asyncio rejects them: the statement requires neither (noted, not armed)"],
}

TW = "autobahn.twisted.rawsocket"
AIO = "autobahn.asyncio.rawsocket"
SUPPORTED = [1, 2, 3]
OWN_ID = 2


def _cg(ctx):
    if not hasattr(ctx, "_cg"):
        ctx._cg = CallGraph(ctx.program)
    return ctx._cg


class HsRun:
    """Vectorised interpretation of a RawSocket handshake block over (octet1, octet2, reserved class)."""

    def __init__(self, ctx, fn, role, octet_expr, reserved=((0, 0),)):
        self.ctx, self.fn, self.role = ctx, fn, role
        n_res = len(reserved)
        idx = np.arange(65536 * n_res, dtype=np.int64)
        self.o1 = (idx & 0xFFFF) >> 8
        self.o2 = idx & 0xFF
        r = idx >> 16
        self.o3 = np.array([reserved[i][0] for i in r], dtype=np.int64)
        self.o4 = np.array([reserved[i][1] for i in r], dtype=np.int64)
        self.n = len(idx)
        self.octet_expr = octet_expr  # text -> which octet
        self.aborts = np.zeros(self.n, dtype=bool)
        self.attach = np.zeros(self.n, dtype=bool)
        self.writes = []
        self.stores = {}
        self.raises = np.zeros(self.n, dtype=bool)
        self.ser_sel = None
        self.closures = {st.name for st in fn.node.body if isinstance(st, ast.FunctionDef)}
        res = norm.Resolver(ctx.program, fn.module, fn.cls)
        self.vec = Vec(self.n, res, self.attr, self.call, self.store)

    def attr(self, text, node, mask):
        oc = self.octet_expr.get(text)
        if oc is not None:
            return [self.o1, self.o2, self.o3, self.o4][oc]
        if text == "self.factory._serializers":
            return list(SUPPORTED)
        if text == "self._serializer.RAWSOCKET_SERIALIZER_ID":
            return self.ser_sel if (self.role == "server" and self.ser_sel is not None) else OWN_ID
        if text == "self.serializer_id":
            return OWN_ID
        if text == "self._max_message_size":
            return 2 ** 24
        if text == "self._length_exp":
            return 15
        if text in ("self._handshake_bytes", "self._buffer", "self._serializer", "self._handshake_bytes[0]"):
            return Opaque(text)
        if text in self.stores and isinstance(self.stores[text][0], (np.ndarray, int)):
            return self.stores[text][0]
        return NotImplemented

    def call(self, c, mask, vec):
        nm = call_name(c) or ""
        if nm == "ord" and len(c.args) == 1:
            return vec.eval(c.args[0], mask)
        if nm == "len":
            return 4
        if nm in ("math.log",):
            a = [vec.eval(x, mask) for x in c.args]
            return math.log(*a)
        if nm in ("math.ceil",):
            return math.ceil(vec.eval(c.args[0], mask))
        if nm == "int":
            v = vec.eval(c.args[0], mask)
            return int(v) if not isinstance(v, np.ndarray) else v
        if nm in ("bytes", "bytearray"):
            return vec.eval(c.args[0], mask)
        if nm.startswith("self.log.") or nm in ("_LazyHexFormatter",):
            return Opaque("log")
        if nm == "self.abort":
            self.aborts |= mask
            return None
        if nm == "self._on_handshake_complete":
            self.attach |= mask
            return None
        if nm == "self.transport.write":
            v = vec.eval(c.args[0], mask)
            self.writes.append((v, mask.copy()))
            return None
        if nm == "copy.copy":
            # the selected serializer id is the index into the factory's table (whatever the local holding it is called)
            a0 = c.args[0] if c.args else None
            if isinstance(a0, ast.Subscript) and norm.text(a0.value) == "self.factory._serializers" and not isinstance(a0.slice, ast.Slice):
                try:
                    self._picked = vec.arr(vec.eval(a0.slice, mask))
                except AnalysisError:
                    self._picked = None
            return Opaque("serializer")
        if nm == "self.supports_serializer":
            v = vec.arr(vec.eval(c.args[0], mask))
            return np.isin(v, SUPPORTED)
        if nm == "self.parse_handshake":
            return self.parse_result
        if (nm in self.closures or (nm.startswith("self._") and nm[5:] in getattr(self, "reply_helpers", ()))) and len(c.args) == 2:
            # the reply-writing helper (closure or private method; decided separately: octet = a << 4 | b & 15)
            a = [vec.arr(vec.eval(x, mask)) for x in c.args]
            self.writes.append((("response", a[0], a[1]), mask.copy()))
            return None
        if nm == "HandshakeError":
            return Opaque("exc")
        if nm == "self.dataReceived":
            return None
        return NotImplemented

    def store(self, text, value, mask, vec):
        if text == "self._serializer":
            # the selected serializer id is the index expression's value in the enclosing branch
            picked = getattr(self, "_picked", None)
            self.ser_sel = picked if picked is not None else vec.env.get("ser_id", self.ser_sel)
        self.stores[text] = (value, mask.copy())


def _octets_tw():
    d = {"self._handshake_bytes[0:1]": 0, "self._handshake_bytes[1:2]": 1, "self._handshake_bytes[2:3]": 2, "self._handshake_bytes[3:4]": 3}
    d.update({f"self._handshake_bytes[{i}]": i for i in range(4)})  # indexing a bytes object yields the octet itself
    d.update({f"self._handshake_bytes[:1]": 0})
    return d


def _octetwise(fn):
    """`X[a:b] == b"..."` / `!=` over a slice of known width is the conjunction / disjunction of the per-octet comparisons `ord(X[i:i+1]) == k`"""
    import copy
    from ..core.index import FuncInfo
    changed = []

    class T(ast.NodeTransformer):
        def visit_Compare(self, node):
            node = self.generic_visit(node)
            if len(node.ops) == 1 and isinstance(node.ops[0], (ast.Eq, ast.NotEq)) and isinstance(node.left, ast.Subscript) and isinstance(node.left.slice, ast.Slice) \
                    and isinstance(node.comparators[0], ast.Constant) and isinstance(node.comparators[0].value, bytes):
                sl = node.left.slice
                lo = sl.lower.value if isinstance(sl.lower, ast.Constant) else (0 if sl.lower is None else None)
                hi = sl.upper.value if isinstance(sl.upper, ast.Constant) else None
                k = node.comparators[0].value
                if lo is not None and hi is not None and sl.step is None and hi - lo == len(k) and len(k) >= 1:
                    parts = []
                    for i, octet in enumerate(k):
                        one = ast.Subscript(value=copy.deepcopy(node.left.value), slice=ast.Slice(lower=ast.Constant(lo + i), upper=ast.Constant(lo + i + 1), step=None), ctx=ast.Load())
                        parts.append(ast.Compare(left=ast.Call(func=ast.Name(id="ord", ctx=ast.Load()), args=[one], keywords=[]), ops=[copy.deepcopy(node.ops[0])],
                                                 comparators=[ast.Constant(octet)]))
                    new = parts[0] if len(parts) == 1 else ast.BoolOp(op=ast.And() if isinstance(node.ops[0], ast.Eq) else ast.Or(), values=parts)
                    for x in ast.walk(new):
                        ast.copy_location(x, node)
                    changed.append(1)
                    return new
            return node
    new = T().visit(copy.deepcopy(fn.node))
    if not changed:
        return fn
    ast.fix_missing_locations(new)
    out = FuncInfo(fn.module, fn.cls, new, parent=fn.parent)
    out.variant = (getattr(fn, "variant", "") + "+octetwise").lstrip("+")
    return out


def rule_handshake_tables(ctx, rule_id="C13.1-rawsocket-handshake-decision-table"):
    ctx.rule(rule_id)
    an = get_analysis(ctx)
    # ---- Twisted server / client -------------------------------------------------------------
    for cls, role in (("WampRawSocketServerProtocol", "server"), ("WampRawSocketClientProtocol", "client")):
        fn = ctx.program.func(f"{TW}.{cls}.dataReceived")
        ctx.analysed(fn)
        from .common import expand_expr_helpers
        fn = _octetwise(expand_expr_helpers(ctx, fn))   # private expression helpers read in place; slice comparisons read octet by octet
        blocks = [s for s in walk_no_defs(fn.node) if isinstance(s, ast.If) and norm.text(s.test) == "len(self._handshake_bytes) == 4"]
        ctx.require(len(blocks) == 1, f"{cls}.dataReceived: handshake block not found")
        run = HsRun(ctx, fn, role, _octets_tw(), ((0, 0), (1, 0), (0, 255)))
        run.vec.run(blocks[0].body)
        _judge(ctx, f"twisted {role}", run, fn, role, reserved_rejected=True)
        # accumulation of the first four octets across reads, decided cell-wise over (octets buffered before) x (length of this read): the
        # stream positions 0..3 are collected, the handshake is judged exactly when the fourth arrives, what lies behind is re-processed
        import copy
        from ..core.tiny import Tiny, Sym, Buf
        body = copy.deepcopy([x for x in fn.node.body if not (isinstance(x, ast.Expr) and isinstance(x.value, ast.Constant))])
        for x in ast.walk(ast.Module(body=body, type_ignores=[])):
            if isinstance(x, ast.If) and norm.text(x.test) == "len(self._handshake_bytes) == 4":
                x.body = [ast.fix_missing_locations(ast.copy_location(ast.Expr(value=ast.Call(func=ast.Name(id="__judge_handshake", ctx=ast.Load()), args=[], keywords=[])), x))]
        probs = []
        try:
            for k in range(4):
                for d in range(7):
                    judged, again = [], []

                    def default(f_, a_, k_=None):
                        if f_ == "self.dataReceived":
                            again.append(a_[0] if a_ else None)
                            return None
                        return Sym(f"<{f_}>")
                    t = Tiny({"self": Sym("protocol"), "self._handshake_complete": False, "self._handshake_bytes": Buf(0, k), fn.params()[1]: Buf(k, k + d)},
                             calls={"__judge_handshake": lambda: judged.append(1)}, default_call=default)
                    r = t.run(body)
                    have = min(4, k + d)
                    cell = f"{k} handshake octet(s) buffered, read of {d} octet(s)"
                    hb = t.env.get("self._handshake_bytes")
                    if r[0] == "raise":
                        probs.append(f"{cell}: raises {r[1]}")
                    elif not (isinstance(hb, Buf) and len(hb) == have and (have == 0 or (hb.lo, hb.hi) == (0, have))):
                        probs.append(f"{cell}: handshake buffer is {hb}, expected stream[0:{have}]")
                    elif (len(judged) == 1) != (have == 4) or len(judged) > 1:
                        probs.append(f"{cell}: handshake judged {len(judged)} time(s)")
                    elif k + d > 4 and not (len(again) == 1 and isinstance(again[0], Buf) and (again[0].lo, again[0].hi) == (4, k + d)):
                        probs.append(f"{cell}: octets behind the handshake handed on as {again}, expected stream[4:{k + d}]")
                    elif k + d <= 4 and any(isinstance(x, Buf) and len(x) for x in again):
                        probs.append(f"{cell}: {again} re-processed although nothing lies behind the handshake")
            ctx.ob(f"twisted {role}: handshake octets accumulated across reads, judged when complete, remainder re-processed [28 cells]", not probs, "; ".join(probs[:2]), fn.loc())
        except AnalysisError as e:
            raise AnalysisError(f"[{ctx.cur_rule}] {cls}.dataReceived outside the modelled subset: {e}")
    # ---- asyncio ---------------------------------------------------------------------------------
    ph = ctx.program.func(f"{AIO}.RawSocketProtocol.parse_handshake")
    ctx.analysed(ph)
    # the local holding the four handshake octets: the one assigned from the head of self._buffer (whatever it is called)
    bufn = [s_.targets[0].id for s_ in ph.node.body if isinstance(s_, ast.Assign) and len(s_.targets) == 1 and isinstance(s_.targets[0], ast.Name)
            and any(isinstance(x_, ast.Subscript) and norm.text(x_.value) == "self._buffer" for x_ in ast.walk(s_.value))]
    BN = bufn[0] if len(bufn) == 1 else "buf"
    oct_aio = {f"{BN}[{i_}]": i_ for i_ in range(4)}
    reserved = ((0, 0), (1, 0), (0, 255))
    for cls, role in (("RawSocketServerProtocol", "server"), ("RawSocketClientProtocol", "client")):
        run = HsRun(ctx, ph, role, oct_aio, reserved)
        body = [s for s in ph.node.body if not (isinstance(s, ast.Assign) and norm.text(s.targets[0]) == BN)]
        bufdef = [s for s in ph.node.body if isinstance(s, ast.Assign) and norm.text(s.targets[0]) == BN]
        ctx.ob(f"asyncio {role}: handshake parsed from the first four buffered octets", len(bufdef) == 1 and norm.text(bufdef[0].value) == "bytearray(self._buffer[:4])", "buf source changed", ph.loc())
        run.vec.run(body)
        parse_raised = run.vec.raised.copy()
        rets = [e for e in run.vec.events if e[0] == "return-expr"]
        ctx.require(len(rets) == 1 and isinstance(rets[0][2], list) and len(rets[0][2]) == 2, "parse_handshake does not return (ser, lexp)")
        ser, lexp = [run.vec.arr(x) for x in rets[0][2]]
        mls = run.stores.get("self.max_length_send")
        pf = ctx.program.func(f"{AIO}.{cls}.process_handshake")
        ctx.analysed(pf)
        run2 = HsRun(ctx, pf, role, oct_aio, reserved)
        run2.parse_result = [ser, lexp]
        run2.vec.active = ~parse_raised
        stm = [s for s in pf.node.body if not isinstance(s, ast.FunctionDef)]
        # send_response closure: b2 = lexp << 4 | (ser_id & 0x0F)
        clos = [s for s in pf.node.body if isinstance(s, ast.FunctionDef)]
        cfi = None
        if clos:
            cfi = [x for x in pf.nested_list() if x.node is clos[0]][0]
        else:
            # the same helper as a private method of the class: called from process_handshake with two arguments, writes one 4-octet list
            for c_ in calls_in(pf.node):
                if self_call(c_) and c_.func.attr.startswith("_") and len(c_.args) == 2:
                    h_ = ctx.program.lookup_method(pf.cls, c_.func.attr)
                    if h_ is not None and any(norm.text(w_.func) == "self.transport.write" for w_ in calls_in(h_.node)):
                        cfi = h_
                        clos = [h_.node]
                        run2.reply_helpers = {c_.func.attr}
                        break
        if clos:
            from .common import eval_finite
            wr = [c for c in calls_in(clos[0]) if norm.text(c.func) == "self.transport.write"]
            lists = [x for c in wr for x in ast.walk(c) if isinstance(x, ast.List) and len(x.elts) == 4]
            okr, why = False, "reply layout changed"
            prm_ = [x_ for x_ in cfi.params() if x_ != "self"]
            if len(wr) == 1 and len(lists) == 1 and len(prm_) == 2:
                p0, p1 = prm_
                A0, A1 = np.meshgrid(np.arange(16), np.arange(256), indexing="ij")
                A0, A1 = A0.ravel(), A1.ravel()
                try:
                    vals = [eval_finite(ctx.program, cfi, e, {p0: A0, p1: A1}, len(A0)) for e in lists[0].elts]
                    okr = bool(np.all(vals[0] == 0x7F) and np.all(vals[1] == ((A0 << 4) | (A1 & 15))) and np.all(vals[2] == 0) and np.all(vals[3] == 0))
                    why = "octets written are not [0x7F, first << 4 | second & 15, 0, 0]"
                except AnalysisError as e:
                    why = str(e)
            ctx.ob("asyncio server: reply is [0x7F, exp << 4 | (serializer & 0x0F), 0, 0] [16 x 256 argument pairs]", okr, why, pf.loc())
        run2.vec.run(stm)
        raised = parse_raised | run2.vec.raised
        # caller: data_received catches HandshakeError -> protocol_error -> close, else attaches
        dr = ctx.program.func(f"{AIO}.RawSocketProtocol.data_received")
        g, mf, res = an.get(dr)
        ph_call = [(n, c) for n in g.stmt_nodes() for c in node_calls(n) if self_call(c, "process_handshake")]
        hs = [m for n, c in ph_call for m, lab in n.succ if lab and lab[0] == "exc"]
        ok = len(ph_call) == 1 and bool(hs) and all(norm.text(h.ast.type) == "HandshakeError" for h in hs) and \
            all(any(self_call(c, "protocol_error") for b in h.ast.body for c in ast.walk(b) if isinstance(c, ast.Call)) and any(isinstance(b, ast.Return) for b in h.ast.body) for h in hs)
        ctx.ob(f"asyncio {role}: a refused handshake closes the transport and returns", ok, "HandshakeError handling changed", dr.loc())
        att = [(n, c) for n in g.stmt_nodes() for c in node_calls(n) if self_call(c, "_on_handshake_complete")]
        ok = len(att) == 1 and bool(ph_call) and g.always_preceded_by(att[0][0], lambda x: x is ph_call[0][0]) and not any(g.path_exists(h, att[0][0]) for h in hs)
        ctx.ob(f"asyncio {role}: session attached only after process_handshake returned normally", ok, "attach reachable without a validated handshake", dr.loc())
        run2.attach = ~raised
        run2.aborts = raised
        run2.stores["self._max_len_send"] = (run.vec.arr(mls[0]) if mls else None, None)
        run2.o1, run2.o2, run2.o3, run2.o4 = run.o1, run.o2, run.o3, run.o4
        _judge(ctx, f"asyncio {role}", run2, pf, role, reserved_rejected=True, aio=True)


def _judge(ctx, tag, run, fn, role, reserved_rejected, aio=False):
    o1, o2, o3, o4 = run.o1, run.o2, run.o3, run.o4
    ser = o2 & 0x0F
    exp = o2 >> 4
    if role == "server":
        valid = (o1 == 0x7F) & np.isin(ser, SUPPORTED)
    else:
        valid = (o1 == 0x7F) & (ser == OWN_ID)
    if reserved_rejected:
        valid &= (o3 == 0) & (o4 == 0)
    cells = len(o1)
    ctx.per_rule[ctx.cur_rule][f"{tag} cells"] = cells
    bad = run.attach != valid
    k = int(np.argmax(bad)) if bad.any() else 0
    ctx.ob(f"{tag}: session attached iff magic 0x7F, serializer {'supported' if role == 'server' else 'as requested'} and reserved octets zero ({cells} handshakes)", not bad.any(),
           f"{int(bad.sum())} handshakes judged wrongly, e.g. octets {int(o1[k]):#04x} {int(o2[k]):#04x} {int(o3[k])} {int(o4[k])}: "
           f"{'attached' if run.attach[k] else 'refused'}", fn.loc())
    refused = ~valid
    ctx.ob(f"{tag}: every refused handshake aborts/closes the transport", not (refused & ~run.aborts).any(), f"{int((refused & ~run.aborts).sum())} refused handshakes without abort", fn.loc())
    ctx.ob(f"{tag}: no abort on an accepted handshake", not (valid & run.aborts).any(), "valid handshake aborted", fn.loc())
    mls = run.stores.get("self._max_len_send") or run.stores.get("self.max_length_send")
    if mls is not None and mls[0] is not None:
        v = run.vec.arr(mls[0]) if not isinstance(mls[0], np.ndarray) else mls[0]
        ok = bool((v[valid] == (2 ** (9 + exp[valid]))).all())
        ctx.ob(f"{tag}: send limit = 2^(9 + high nibble of octet 2)", ok, "peer-announced maximum decoded wrongly", fn.loc())
    else:
        ctx.ob(f"{tag}: send limit recorded", False, "_max_len_send / max_length_send not assigned from the handshake", fn.loc())
    if role == "server":
        if aio:
            resp = [w for w in run.writes if isinstance(w[0], tuple) and w[0][0] == "response"]
            # a reply written in place (no helper): the four octets [0x7F, octet 2, 0, 0], octet 2 read as (high nibble, low nibble)
            direct_ok = True
            for v_, m_ in run.writes:
                if isinstance(v_, list) and len(v_) == 4:
                    o_ = [run.vec.arr(x_) for x_ in v_]
                    direct_ok = direct_ok and bool((o_[0][m_] == 0x7F).all()) and bool((o_[2][m_] == 0).all()) and bool((o_[3][m_] == 0).all())
                    resp.append((("response", o_[1] >> 4, o_[1] & 15), m_))
            good = [w for w in resp if (w[1] & valid).any()]
            err = [w for w in resp if (w[1] & ~valid).any()]
            okr = direct_ok and len(good) == 1 and bool((good[0][0][1][valid & good[0][1]] == 15).all()) and bool((good[0][0][2][valid & good[0][1]] == ser[valid & good[0][1]]).all()) \
                and bool((valid <= good[0][1]).all())
            ctx.ob(f"{tag}: reply announces exponent 15 (2^24) and echoes the chosen serializer", okr, "reply octet 2 changed", fn.loc())
            oke = all(bool((w[0][1][w[1] & ~valid] == 1).all()) and bool((w[0][2][w[1] & ~valid] == 0).all()) for w in err) and len(err) >= 1
            ctx.ob(f"{tag}: unsupported serializer answered with error code 1 / serializer 0", oke, "error reply changed", fn.loc())
        else:
            ws = [w for w in run.writes if (w[1] & valid).any()]
            ok = len(ws) == 3
            if ok:
                first, second, third = ws
                ok = first[0] == b"\x7f" and third[0] == b"\x00\x00" and isinstance(second[0], list) and len(second[0]) == 1 and \
                    bool((run.vec.arr(second[0][0])[valid] == (((24 - 9) << 4) | ser[valid])).all())
            ctx.ob(f"{tag}: reply is 0x7F, (15 << 4) | chosen serializer, 0, 0", ok, "reply octets changed", fn.loc())
            ctx.ob(f"{tag}: nothing is written for a refused handshake", not any((w[1] & ~valid).any() for w in run.writes), "reply written although refused", fn.loc())
            ml = run.stores.get("self.MAX_LENGTH")
            ctx.ob(f"{tag}: receive limit MAX_LENGTH = announced 2^24", ml is not None and bool(np.all(np.asarray(ml[0]) == 2 ** 24)), "MAX_LENGTH changed", fn.loc())


def rule_announced_is_enforced(ctx):
    """"An incoming frame longer than the locally announced maximum is rejected" -- and one within it is not: the receive limit that is
    ENFORCED (Int32StringReceiver.MAX_LENGTH) must be the limit that is ANNOUNCED in the handshake octet, also when the configured maximum
    is not a power of two.  Twisted server handshake block and client connectionMade, evaluated (sa.core.tiny, math answered by the
    standard library) for configured sizes 513, 1000, 1024, 2^24."""
    import math as _math
    from ..core.tiny import Tiny, Sym, _to_py, _from_py
    from .common import inline_private
    ctx.rule("C13.1c-announced-limit-is-enforced-limit")
    probs, n = [], 0
    for clsn, role in (("WampRawSocketServerProtocol", "server"), ("WampRawSocketClientProtocol", "client")):
        cls = ctx.program.cls(f"{TW}.{clsn}")
        if role == "server":
            fn = ctx.program.func(f"{TW}.{clsn}.dataReceived")
            blocks = [s_ for s_ in walk_no_defs(fn.node) if isinstance(s_, ast.If) and norm.text(s_.test) == "len(self._handshake_bytes) == 4"]
            ctx.require(len(blocks) == 1, f"{clsn}.dataReceived: handshake block not found")
            body = blocks[0].body
        else:
            fn = ctx.program.func(f"{TW}.{clsn}.connectionMade")
            body = [x for x in fn.node.body if not (isinstance(x, ast.Expr) and isinstance(x.value, ast.Constant))]
        ctx.analysed(fn)
        for mms in (513, 1000, 1024, 2 ** 24):
            wrote = []

            def orc(f_, a_, k_=None):
                if f_ == "self.transport.write":
                    wrote.append(_to_py(a_[0]))
                    return None
                if f_ in ("math.log", "math.ceil"):
                    return getattr(_math, f_[5:])(*a_)
                if f_ == "ord":
                    v_ = _to_py(a_[0])
                    return ord(v_) if isinstance(v_, (bytes, str)) and len(v_) == 1 else 0
                if f_ in ("bytes", "bytearray") and a_ and isinstance(a_[0], list) and all(isinstance(x, int) for x in a_[0]):
                    return _from_py(bytes(a_[0]))
                if f_ == "copy.copy":
                    return a_[0]
                return Sym(f"<{f_}>")
            ser = Sym("serializer", RAWSOCKET_SERIALIZER_ID=1)
            env = {"self": Sym("protocol"), "self._handshake_bytes": b"\x7f\xf1\x00\x00", "self._max_message_size": mms, "self.log": Sym("log"),
                   "self.factory": Sym("factory", _serializers={1: ser}, _serializer=ser), "self._serializer": ser, "self.transport": Sym("tcp"),
                   "self._handshake_complete": False, "self.MAX_LENGTH": 99999999, fn.params()[1] if len(fn.params()) > 1 else "data": _from_py(b"")}
            from .c07_cells import _method_env
            _method_env(ctx, cls, fn, env)
            try:
                t = Tiny(env, calls={"bytes": None} if False else None, default_call=orc, inline_self=inline_private(ctx, cls, exclude=("_on_handshake_complete",)),
                         model_strings=True, opaque_globals=True)
                r = t.run(body)
            except AnalysisError as e:
                raise AnalysisError(f"[C13.1c-announced-limit-is-enforced-limit] {clsn} handshake code outside the modelled subset: {e}")
            n += 1
            tag = f"twisted {role}, maxMessagePayloadSize={mms}"
            octs = b"".join(bytes(x) if isinstance(x, list) and all(isinstance(y, int) for y in x) else x for x in wrote if isinstance(x, (bytes, list)))
            enforced = t.env.get("self.MAX_LENGTH", t.env["self"].attrs.get("MAX_LENGTH"))
            if r[0] == "raise" or len(octs) != 4:
                probs.append(f"{tag}: {r[0]} {str(r[1])[:50]}, wrote {octs!r}")
                continue
            announced = 2 ** (9 + (octs[1] >> 4))
            if announced < mms or announced >= 2 * mms and mms > 512:
                probs.append(f"{tag}: announces 2^{9 + (octs[1] >> 4)} = {announced}")
            if enforced != announced:
                probs.append(f"{tag}: announces a maximum of {announced} octets but enforces {enforced}: a peer keeping to what it was told is cut off")
    ctx.ob(f"twisted: the receive limit enforced is the limit announced in the handshake octet, for any configured maximum [{n} cells]", not probs, "; ".join(probs[:2]), fn.loc())


def rule_requests(ctx):
    ctx.rule("C13.1b-client-request-octets")
    fn = ctx.program.func(f"{TW}.WampRawSocketClientProtocol.connectionMade")
    ctx.analysed(fn)
    # both clients' opening octets, evaluated (sa.core.tiny; math / bytes answered by the standard library) over configured maxima x serializer ids:
    # what is handed to the transport is 0x7F, (exponent << 4) | serializer id, 0, 0 -- independent of how the code names or stages the pieces
    import math as _math
    from ..core.tiny import Tiny, Sym, _to_py, _from_py
    from .common import inline_private
    from .c07_cells import _method_env

    def request_cells(fn_, cls_, envs, tag):
        probs = []
        for label, extra, want in envs:
            wrote = []

            def orc(f_, a_, k_=None):
                if f_.endswith("transport.write"):
                    wrote.append(_to_py(a_[0]))
                    return None
                if f_ in ("math.log", "math.ceil"):
                    return getattr(_math, f_[5:])(*a_)
                if f_ in ("bytes", "bytearray") and a_ and isinstance(a_[0], list) and all(isinstance(x, int) for x in a_[0]):
                    return _from_py(bytes(a_[0]))
                if f_ in ("copy.copy", "copy.deepcopy"):
                    return a_[0]
                return Sym(f"<{f_}>")
            tr = Sym("tcp")
            env = {"self": Sym("protocol"), "self.log": Sym("log"), "self.transport": tr, "self.MAX_LENGTH": 99999999}
            if len(fn_.params()) > 1:
                env[fn_.params()[1]] = tr
            env.update(extra)
            _method_env(ctx, cls_, fn_, env)
            try:
                t_ = Tiny(env, default_call=orc, inline_self=inline_private(ctx, cls_, exclude=("_on_handshake_complete",)), model_strings=True, opaque_globals=True)
                r_ = t_.run([x for x in fn_.node.body if not (isinstance(x, ast.Expr) and isinstance(x.value, ast.Constant))])
            except AnalysisError as e:
                raise AnalysisError(f"[C13.1b-client-request-octets] {fn_.qualname} outside the modelled subset: {e}")
            octs = b"".join(bytes(x) if isinstance(x, list) and all(isinstance(y, int) for y in x) else x for x in wrote if isinstance(x, (bytes, list)))
            if r_[0] == "raise" or octs != want:
                probs.append(f"{label}: {r_[0] if r_[0] == 'raise' else 'writes'} {octs!r}, expected {want!r}")
        ctx.ob(f"{tag} [{len(envs)} cells]", not probs, "; ".join(probs[:2]), fn_.loc())

    cells_tw = []
    for mms in (513, 1024, 2 ** 20, 2 ** 24):
        for sid in (1, 2, 5):
            e_ = int(_math.ceil(_math.log(mms, 2)))
            ser_ = Sym("serializer", RAWSOCKET_SERIALIZER_ID=sid)
            cells_tw.append((f"maxMessagePayloadSize={mms}, serializer id {sid}",
                             {"self._max_message_size": mms, "self._serializer": ser_, "self.factory": Sym("factory", _serializer=ser_)},
                             bytes([0x7F, ((e_ - 9) << 4) | sid, 0, 0])))
    request_cells(fn, ctx.program.cls(f"{TW}.WampRawSocketClientProtocol"), cells_tw, "twisted client: request is 0x7F, ((exp - 9) << 4) | serializer id, 0, 0")
    fn = ctx.program.func(f"{AIO}.RawSocketClientProtocol.connection_made")
    ctx.analysed(fn)
    cells_aio = []
    for lexp in (0, 7, 15):
        for sid in (1, 2, 5):
            cells_aio.append((f"length exponent {lexp}, serializer id {sid}", {"self._length_exp": lexp, "self.serializer_id": sid, "self._handshake_done": False},
                              bytes([0x7F, (lexp << 4) | sid, 0, 0])))
    request_cells(fn, ctx.program.cls(f"{AIO}.RawSocketClientProtocol"), cells_aio, "asyncio client: request is [0x7F, exp << 4 | serializer id, 0, 0]")
    m = ctx.program.module(AIO)
    ok, v = ctx.program.try_const(m.consts.get("MAGIC_BYTE"), m)
    ctx.ob("asyncio MAGIC_BYTE = 0x7F", ok and v == 0x7F, f"{v}", m.relpath)
    ini = ctx.program.func(f"{AIO}.RawSocketProtocol.__init__")
    an = get_analysis(ctx)
    g, mf, res = an.get(ini)
    pairs = []
    for n in g.stmt_nodes():
        if n.kind == "stmt" and isinstance(n.ast, ast.Assign) and norm.text(n.ast.targets[0]) == "self._length_exp":
            ml = [m for m in g.stmt_nodes() if m.kind == "stmt" and isinstance(m.ast, ast.Assign) and norm.text(m.ast.targets[0]) == "self.max_length" and
                  (g.path_exists(n, m) or g.path_exists(m, n)) and (mf.at(m) or frozenset()) >= frozenset(f for f in (mf.at(n) or ()) if f[0] == "truth" and f[1] == "max_size")]
            pairs.append((norm.text(n.ast.value), [norm.text(m.ast.value) for m in ml]))
    ok = bool(pairs) and all((e == "15" and v == ["2 ** 24"]) or (e == "exp" and v == ["2 ** (exp + 9)"]) for e, v in pairs)
    ctx.ob("asyncio: announced exponent e always goes with a receive limit of 2^(e+9)", ok, f"{pairs}", ini.loc())


def rule_abort_siblings(ctx):
    ctx.rule("C13.3-fail-closed-without-escaping")
    an = get_analysis(ctx)
    cg = _cg(ctx)
    ab = {"twisted": ctx.program.func(f"{TW}.WampRawSocketProtocol.abort"), "asyncio": ctx.program.func(f"{AIO}.WampRawSocketMixinAsyncio.abort")}
    for k, fn in ab.items():
        ctx.analysed(fn)
        g, mf, res = an.get(fn)
        DROPS = ("self.transport.abortConnection", "self.transport.abort", "self.transport.loseConnection", "self.transport.close")
        drops = [n for n in g.stmt_nodes() for c in node_calls(n) if norm.text(c.func) in DROPS]
        # a drop that is reachable only under a condition on the session (isOpen() / self._session) cannot refuse a handshake
        sess_conds = [[f for f in (mf.at(n) or ()) if "session" in str(f[1]).lower() or "isOpen" in str(f[1])] for n in drops]
        on_session = not drops or all(sess_conds)
        # where is abort() called before a session can exist?
        early = []
        for (caller, call, _) in cg.callers(fn):
            if caller.name in ("supports_serializer", "_on_handshake_complete", "dataReceived", "data_received", "process_handshake"):
                early.append(caller.qualname.split(".")[-2] + "." + caller.name)
        ctx.ob(f"{k} RawSocket abort() works before a session is attached (used to refuse handshakes)", not on_session,
               f"abort() is guarded by isOpen() (session attached) and raises TransportLost otherwise, but it is called from {sorted(set(early))} while no session exists: "
               f"the exception escapes data_received instead of the connection being dropped", fn.loc())
        rs = [n for n in g.stmt_nodes() if n.kind == "stmt" and isinstance(n.ast, ast.Raise)]
        ctx.ob(f"{k} RawSocket abort() drops the TCP connection", any(norm.text(c.func) in ("self.transport.abortConnection", "self.transport.abort", "self.transport.loseConnection", "self.transport.close")
                                                                    for c in calls_in(fn.node)), "no transport drop", fn.loc())
    # PING/PONG frames
    pp = ctx.program.cls(f"{AIO}.PrefixProtocol")
    for nm in ("ping", "pong"):
        f = pp.methods[nm]
        overridden = any(nm in c.methods for c in ctx.program.subclasses(pp))
        raises = any(isinstance(s, ast.Raise) for s in walk_no_defs(f.node))
        ctx.ob(f"asyncio RawSocket: a peer's {nm.upper()} frame does not raise out of data_received", overridden or not raises,
               f"PrefixProtocol.{nm}() raises NotImplementedError and no transport class overrides it: a legal RawSocket {nm.upper()} frame (type {1 if nm == 'ping' else 2}) "
               f"makes the exception escape data_received", f.loc())
    # exception ladders
    for q, sink in ((f"{TW}.WampRawSocketProtocol.stringReceived", "abort"), (f"{AIO}.WampRawSocketMixinGeneral.stringReceived", "abort"),
                    ("autobahn.wamp.websocket.WampWebSocketProtocol.onMessage", "_bailout")):
        fn = ctx.program.func(q)
        ctx.analysed(fn)
        g, mf, res = an.get(fn)
        core = [(n, c) for n in g.stmt_nodes() for c in node_calls(n) if norm.text(c.func) in ("self._session.onMessage", "self._serializer.unserialize")]
        ctx.require(len(core) == 2, f"{q}: unserialize/onMessage not found")
        for n, c in core:
            hs = [m for m, lab in n.succ if lab and lab[0] == "exc"]
            allc = any(h.ast.type is not None and norm.text(h.ast.type) == "Exception" for h in hs)
            ctx.ob(f"{q.split('.')[-2]}.{fn.name}: `{norm.text(c.func)}` wrapped with a catch-all", allc, "exceptions of the session/serializer escape the receive path", fn.loc(c))
            for h in hs:
                tname = norm.text(h.ast.type) if h.ast.type is not None else "bare"
                if tname == "CancelledError":
                    continue
                closes = any(isinstance(x, ast.Call) and self_call(x, sink) for b in h.ast.body for x in ast.walk(b))
                ctx.ob(f"{q.split('.')[-2]}.{fn.name}: handler `{tname}` closes the transport", closes, "failure swallowed without closing", fn.loc(h.ast))
    # WebSocket: protocol-level errors -> 1002 ; others 1011
    fn = ctx.program.func("autobahn.wamp.websocket.WampWebSocketProtocol.onMessage")
    hs = [h for t in walk_no_defs(fn.node) if isinstance(t, ast.Try) for h in t.handlers]
    codes = {}
    for h in hs:
        names = [norm.text(t) for t in (h.ast.type.elts if False else (h.type.elts if isinstance(h.type, ast.Tuple) else [h.type]))]
        bc = [c for b in h.body for c in ast.walk(b) if isinstance(c, ast.Call) and self_call(c, "_bailout")]
        code = norm.key(bc[0].args[0], norm.Resolver(ctx.program, fn.module, fn.cls)) if bc else ("e", "")
        for nm in names:
            codes[nm] = code[1] if code[0] == "c" else None
    ctx.ob("WebSocket: ProtocolError closes with 1002", codes.get("ProtocolError") == 1002, f"{codes}", fn.loc())
    ctx.ob("WebSocket: any other failure closes with 1011", codes.get("Exception") == 1011, f"{codes}", fn.loc())
    ctx.ob("WebSocket: InvalidUriError (the sibling protocol-level error raised by parse()) also closes with 1002", codes.get("InvalidUriError") == 1002,
           "InvalidUriError is not a subclass of ProtocolError and is not listed with it: a peer's malformed URI is answered with 1011 (internal error) instead of 1002", fn.loc())
    # verify the sibling relation the rule relies on
    ex = ctx.program.module("autobahn.wamp.exception")
    pe, iu = ex.classes.get("ProtocolError"), ex.classes.get("InvalidUriError")
    ctx.require(pe is not None and iu is not None, "ProtocolError / InvalidUriError classes missing")
    sub = pe in ctx.program.mro(iu)
    if sub:
        ctx.note("InvalidUriError now derives from ProtocolError: the 1002 mapping holds through the ProtocolError handler")
        for f in list(ctx.findings):
            if "InvalidUriError (the sibling" in f.construct:
                ctx.findings.remove(f)
                ctx.discharged += 1


def rule_limits(ctx):
    ctx.rule("C13.4-send-and-receive-limits")
    an = get_analysis(ctx)
    # decided cell-wise (sa.core.tiny): over (announced maximum, serialized length).  A message goes out iff it is within the announced
    # maximum AND within what the 24-bit length prefix can express; otherwise PayloadExceededError and nothing is written
    for q, lim in SEND_LIMITS:
        fn = ctx.program.func(q)
        ctx.analysed(fn)
        probs, n_cells, _kinds = send_limit_cells(ctx, q, lim, "C13.4-send-and-receive-limits")
        ctx.ob(f"{q.split('.')[-3]}.{q.split('.')[-2]}.send: written iff within the announced maximum and within the 24-bit length prefix, else PayloadExceededError [{n_cells} cells]",
               not probs, "; ".join(probs[:2]), fn.loc())
    _rule_limits_receive(ctx, an)


SEND_LIMITS = ((f"{TW}.WampRawSocketProtocol.send", "self._max_len_send"), (f"{AIO}.WampRawSocketMixinGeneral.send", "self.max_length_send"))


def send_limit_cells(ctx, q, lim, rule_id):
    """RawSocket send() evaluated (sa.core.tiny, the framing function followed in place) over (maximum announced by the peer, serialized length):
    -> (problems, number of cells, exception kinds that left send() on some cell)"""
    from ..core.tiny import Tiny, Sym, Buf
    if True:
        fn = ctx.program.func(q)
        body = [x for x in fn.node.body if not (isinstance(x, ast.Expr) and isinstance(x.value, ast.Constant))]
        probs, n_cells, kinds = [], 0, set()
        try:
            for L in (512, 2 ** 24):
                for n_ in sorted({L - 1, L, L + 1, 2 ** 24 - 1, 2 ** 24, 2 ** 24 + 1}):
                    wrote = []
                    payload = Buf(0, n_)

                    def oracle(f_, a_, k_=None):
                        # the framing function is followed (evaluated in place) down to what actually puts octets on the wire
                        if f_ in ("self.transport.write", "Int32StringReceiver.sendString", "super().sendString", "self.sendString") or f_.endswith("StringReceiver.sendString"):
                            if any(x is payload for x in a_):
                                wrote.append(payload)
                            return None
                        if f_ == "self.isOpen":
                            return True
                        if f_.endswith("_serializer.serialize"):
                            return [payload, True]
                        if f_ == "struct.pack":
                            return Buf(900, 904)
                        return Sym(f"<{f_}>")
                    env = {"self": Sym("transport"), lim: L, fn.params()[1]: Sym("message"), "self.log": Sym("log"), "self._serializer": Sym("serializer"),
                           "self.__class__": Sym("class", __name__="X"), "self.transport": Sym("tcp"), "self.prefix_format": "!L",
                           "self.max_length": 2 ** 24, "self._max_message_size": 2 ** 24, "self.MAX_LENGTH": 2 ** 24}
                    env[lim] = L  # (own receive limits above are not the peer's announced maximum)
                    from .c07_cells import _method_env

                    def inl(name, _cls=fn.cls):
                        if name in ("isOpen",):
                            return None
                        m_ = ctx.program.lookup_method(_cls, name)
                        if m_ is None and name == "sendString" and q.startswith(AIO):  # asyncio: the mixin's framing function lives in PrefixProtocol
                            m_ = ctx.program.cls(f"{AIO}.PrefixProtocol").methods.get("sendString")
                        return m_.node if m_ is not None and (name.startswith("_") or name == "sendString") else None
                    _method_env(ctx, fn.cls, fn, env)
                    env.pop("self.sendString", None)
                    r = Tiny(env, default_call=oracle, inline_self=inl, opaque_globals=True, model_strings=True).run(body)
                    n_cells += 1
                    fits = n_ <= L and n_ <= 2 ** 24 - 1
                    tag = f"peer announced {L}, message of {n_} octets"
                    refused = r[0] == "raise" and "PayloadExceededError" in str(r[1])
                    if r[0] == "raise":
                        kinds.add(str(r[1]).split("(")[0].strip().split(".")[-1])
                    if fits and not (r[0] != "raise" and len(wrote) == 1 and wrote[0] is payload):
                        probs.append(f"{tag}: {r[0]} {str(r[1])[:40]}, {len(wrote)} write(s); expected the message to be written once")
                    if not fits and (not refused or wrote):
                        probs.append(f"{tag}: {'written' if wrote else r[0]} -- expected PayloadExceededError and nothing written"
                                     + (" (2**24 does not fit the 24-bit length prefix: it goes out as an empty frame of type 1 followed by 16 MiB of stray octets)" if n_ == 2 ** 24 and wrote else ""))
        except AnalysisError as e:
            raise AnalysisError(f"[{rule_id}] {q} outside the modelled subset: {e}")
        return probs, n_cells, kinds


def _rule_limits_receive(ctx, an):
    from ..core.tiny import Tiny, Sym, Buf
    pp = ctx.program.func(f"{AIO}.PrefixProtocol.data_received")
    ctx.analysed(pp)
    g, mf, res = an.get(pp)
    # decided cell-wise (sa.core.tiny on concrete prefix octets; struct / ord answered by the standard library): a frame with type
    # octet t and a 3-octet payload, whole and with the prefix split over two reads -- t = 0 is delivered, 1 / 2 go to ping / pong, 3..7 are refused
    import struct as _struct
    from ..core.tiny import _to_py as _tp, _from_py as _fp
    mod = ctx.program.module(AIO)
    consts = {}
    for st_ in mod.tree.body if hasattr(mod, "tree") else []:
        if isinstance(st_, ast.Assign) and len(st_.targets) == 1 and isinstance(st_.targets[0], ast.Name) and isinstance(st_.value, ast.Constant) and st_.targets[0].id.startswith("FRAME_TYPE"):
            consts[st_.targets[0].id] = st_.value.value
    if len(consts) < 3:
        consts = {k_: ctx.program.try_const(ast.Name(id=k_, ctx=ast.Load()), mod)[1] for k_ in ("FRAME_TYPE_DATA", "FRAME_TYPE_PING", "FRAME_TYPE_PONG")}
    probs, ncell = [], 0
    body = [x for x in pp.node.body if not (isinstance(x, ast.Expr) and isinstance(x.value, ast.Constant))]
    try:
        for t_ in range(8):
            for cut in (None, 2):
                seen = []

                def orc(f_, a_, k_=None):
                    if f_ in ("self.stringReceived", "self.ping", "self.pong", "self.protocol_error"):
                        seen.append((f_[5:], _tp(a_[0]) if a_ else None))
                        return None
                    if f_ == "ord":
                        v_ = _tp(a_[0])
                        return ord(v_) if isinstance(v_, (bytes, str)) and len(v_) == 1 else 0
                    if f_ == "struct.unpack":
                        return list(_struct.unpack(a_[0], _tp(a_[1])))
                    if f_ == "struct.calcsize":
                        return _struct.calcsize(a_[0])
                    return Sym(f"<{f_}>")
                wire = bytes([t_, 0, 0, 3]) + b"abc"
                env = {"self": Sym("protocol"), "self._buffer": _fp(b""), "self._header": None, "self.prefix_length": 4, "self.prefix_format": "!L", "self.max_length": 2 ** 24,
                       "self.log": Sym("log")}
                env.update(consts)
                from .c07_cells import _method_env as _menv
                _menv(ctx, pp.cls, pp, env)
                for k_ in ("self.stringReceived", "self.ping", "self.pong", "self.protocol_error"):
                    # observed: as a bound method value (also when picked out of a table and called) and through the oracle
                    env[k_] = Sym(f"method {k_[5:]}", methods={"__call__": (lambda *a_, _k=k_[5:]: seen.append((_k, _tp(a_[0]) if a_ else None)))})
                from .common import inline_private as _ip
                tn = Tiny(env, default_call=orc, model_strings=True, model_types=True, opaque_globals=True,
                          inline_self=_ip(ctx, pp.cls, exclude=("_on_handshake_complete",)))
                for piece in ([wire] if cut is None else [wire[:cut], wire[cut:]]):
                    tn.env[pp.params()[1]] = _fp(piece)
                    r = tn.run(body)
                    if r[0] == "raise":
                        break
                ncell += 1
                tag = f"frame type octet {t_}, {'one read' if cut is None else 'prefix split after 2 octets'}"
                want = {0: [("stringReceived", b"abc")], 1: [("ping", b"abc")], 2: [("pong", b"abc")]}.get(t_)
                if r[0] == "raise":
                    probs.append(f"{tag}: raises {r[1]}")
                elif want is not None and seen != want:
                    probs.append(f"{tag}: handled as {seen}, expected {want}")
                elif want is None and (not seen or seen[0][0] != "protocol_error" or any(k_ != "protocol_error" for k_, _ in seen)):
                    probs.append(f"{tag}: handled as {seen}, expected the frame to be refused (protocol error) and nothing delivered")
    except AnalysisError as e:
        raise AnalysisError(f"[C13.4-send-and-receive-limits] PrefixProtocol.data_received outside the modelled subset: {e}")
    ctx.ob(f"asyncio: frame types 0/1/2 go to message / ping / pong, every other type is refused and nothing of it delivered [{ncell} cells]", not probs, "; ".join(probs[:2]), pp.loc())
    # ... and the receive limit: with an announced maximum of 16 octets a frame of 16 is delivered, one of 17 is refused -- as soon as its prefix is
    # there (before any payload is buffered or sliced) -- and nothing of it is delivered
    probs, ncell = [], 0
    try:
        for t_ in (0, 1):
            for flen, have in ((16, 16), (17, 0), (17, 17), (2 ** 24 - 1, 0), (0, 0)):
                seen = []

                def orc2(f_, a_, k_=None):
                    if f_ in ("self.stringReceived", "self.ping", "self.pong", "self.protocol_error"):
                        seen.append((f_[5:], _tp(a_[0]) if a_ else None))
                        return None
                    if f_ == "ord":
                        v_ = _tp(a_[0])
                        return ord(v_) if isinstance(v_, (bytes, str)) and len(v_) == 1 else 0
                    if f_ == "struct.unpack":
                        return list(_struct.unpack(a_[0], _tp(a_[1])))
                    if f_ == "struct.calcsize":
                        return _struct.calcsize(a_[0])
                    return Sym(f"<{f_}>")
                payload = bytes(range(65, 65 + have))
                wire = bytes([t_]) + flen.to_bytes(3, "big") + payload
                env = {"self": Sym("protocol"), "self._buffer": _fp(b""), "self._header": None, "self.prefix_length": 4, "self.prefix_format": "!L", "self.max_length": 16,
                       "self.log": Sym("log")}
                env.update(consts)
                _menv(ctx, pp.cls, pp, env)
                for k_ in ("self.stringReceived", "self.ping", "self.pong", "self.protocol_error"):
                    # observed: as a bound method value (also when picked out of a table and called) and through the oracle
                    env[k_] = Sym(f"method {k_[5:]}", methods={"__call__": (lambda *a_, _k=k_[5:]: seen.append((_k, _tp(a_[0]) if a_ else None)))})
                tn = Tiny(env, default_call=orc2, model_strings=True, model_types=True, opaque_globals=True, inline_self=_ip(ctx, pp.cls, exclude=("_on_handshake_complete",)))
                tn.env[pp.params()[1]] = _fp(wire)
                r = tn.run(body)
                ncell += 1
                tag = f"announced maximum 16, frame type {t_}, declared length {flen}, {have} payload octet(s) buffered"
                if r[0] == "raise":
                    probs.append(f"{tag}: raises {r[1]}")
                elif flen > 16 and (not seen or any(k_ != "protocol_error" for k_, _ in seen)):
                    probs.append(f"{tag}: handled as {seen}, expected the frame to be refused at its prefix (protocol error), nothing delivered")
                elif flen <= 16 and have >= flen and not (len(seen) == 1 and seen[0][0] == ("stringReceived" if t_ == 0 else "ping") and
                                                          (seen[0][1] == payload[:flen] or (flen == 0 and seen[0][1] in (b"", "")))):
                    probs.append(f"{tag}: handled as {seen}, expected the payload to be delivered")
    except AnalysisError as e:
        raise AnalysisError(f"[C13.4-send-and-receive-limits] PrefixProtocol.data_received outside the modelled subset: {e}")
    ctx.ob(f"asyncio: a frame longer than the announced maximum is refused at its prefix, one within it is delivered [{ncell} cells]", not probs, "; ".join(probs[:2]), pp.loc())
    ll = ctx.program.func(f"{TW}.WampRawSocketProtocol.lengthLimitExceeded")
    ok = any(isinstance(s, ast.Raise) for s in walk_no_defs(ll.node)) or any("loseConnection" in norm.text(c.func) or "abort" in norm.text(c.func) for c in calls_in(ll.node))
    ctx.ob("twisted: an over-limit incoming frame is refused, not buffered", ok, "lengthLimitExceeded does nothing", ll.loc())


def rule_subprotocol(ctx):
    ctx.rule("C13.7-subprotocol-selection")
    an = get_analysis(ctx)
    from .common import expand_expr_helpers
    fn = ctx.program.func("autobahn.wamp.websocket.WampWebSocketServerProtocol.onConnect")
    ctx.analysed(fn)
    fn = expand_expr_helpers(ctx, fn)   # `self._helper(x)` returning one expression is read as that expression
    g, mf, res = an.get(fn)
    # decided cell-wise (sa.core.tiny; parseSubprotocolIdentifier evaluated in place): over lists of offered subprotocols, the answer is the FIRST entry
    # (client's order) that is wamp.2.<id> with <id> in the factory's serializer table, the serializer attached is the table's entry for that id, and
    # with no such entry the connection is denied (strict) -- independent of how the code names or stages the pieces
    from ..core.tiny import Tiny as _T, Sym as _S, Buf as _B, TinyRaise as _TR
    from .c07_cells import _method_env as _me
    SER = {"json": _S("ser-json"), "msgpack": _S("ser-msgpack"), "json.batched": _S("ser-json-batched")}

    def _orc(f_, a_, k_=None):
        if f_ in ("copy.copy", "copy.deepcopy"):
            return a_[0]
        return _S(f"<{f_}>")

    def _eval(fn_, env):
        _me(ctx, fn_.cls, fn_, env)
        t_ = _T(env, default_call=_orc, opaque_globals=True, model_strings=True, model_types=True)
        t_.inline_module_funcs = {"parseSubprotocolIdentifier"}
        t_.module = fn_.module
        try:
            r_ = t_.run([x for x in fn_.node.body if not (isinstance(x, ast.Expr) and isinstance(x.value, ast.Constant))])
        except _TR as ex:
            r_ = ("raise", str(ex))
        return r_, t_.env.get("self._serializer", t_.env["self"].attrs.get("_serializer"))
    probs, ncell = [], 0
    SERVER_CELLS = ((["wamp.2.json"], "wamp.2.json"), (["wamp.2.cbor", "wamp.2.msgpack", "wamp.2.json"], "wamp.2.msgpack"), (["wamp.2.json", "wamp.2.msgpack"], "wamp.2.json"),
                    (["wamp.1.json", "wamp.2.json"], "wamp.2.json"), (["wamp.3.json"], None), (["foo"], None), ([], None), (["mqtt", "wamp.2.msgpack"], "wamp.2.msgpack"),
                    (["wamp.2.json.batched", "wamp.2.json"], "wamp.2.json.batched"), (["wamp.2.ubjson"], None), (["wamp.2"], None), (["json"], None))
    try:
        for strict in (True, False):
            for offered, want in SERVER_CELLS:
                env = {"self": _S("transport"), "self.factory": _S("factory", _serializers=dict(SER), protocols=[f"wamp.2.{k_}" for k_ in SER]),
                       "self.STRICT_PROTOCOL_NEGOTIATION": strict, "self.log": _S("log"), fn.params()[1]: _S("request", protocols=list(offered))}
                r, ser_ = _eval(fn, env)
                ncell += 1
                tag = f"client offers {offered} ({'strict' if strict else 'lenient'})"
                if want is not None:
                    got = r[1][0] if r[0] == "return" and isinstance(r[1], (list, tuple)) and r[1] else (r[1] if r[0] == "return" else r[0])
                    if got != want:
                        probs.append(f"{tag}: answers {got!r}, expected {want!r}")
                    elif ser_ is not SER[want[len('wamp.2.'):]]:
                        probs.append(f"{tag}: selects {want} but attaches {ser_}")
                elif strict and not (r[0] == "raise" and "ConnectionDeny" in str(r[1])):
                    probs.append(f"{tag}: {r[0]} {str(r[1])[:40]}, expected ConnectionDeny")
                elif not strict and not (r[0] == "return" and isinstance(r[1], (list, tuple)) and r[1] and r[1][0] is None and ser_ is SER["json"]):
                    probs.append(f"{tag}: {r[0]} {str(r[1])[:40]} with {ser_}, expected no subprotocol announced and the JSON serializer assumed")
    except AnalysisError as e:
        raise AnalysisError(f"[C13.7-subprotocol-selection] server onConnect outside the modelled subset: {e}")
    ctx.ob(f"server: answers the first offered wamp.2.<id> with a known serializer id and attaches that serializer; none -> denied [{ncell} cells]", not probs, "; ".join(probs[:2]), fn.loc())
    deny = [n for n in g.stmt_nodes() if n.kind == "stmt" and isinstance(n.ast, ast.Raise) and "ConnectionDeny" in norm.text(n.ast.exc)]
    ctx.ob("server: no common subprotocol -> ConnectionDeny (strict)", len(deny) == 1 and ("truth", "self.STRICT_PROTOCOL_NEGOTIATION", None, True) in mf.at(deny[0]), "changed", fn.loc())
    ctx.ob("server: strict negotiation is the default", ctx.program.class_const(fn.cls, "STRICT_PROTOCOL_NEGOTIATION") is True, "default changed", fn.loc())
    cf = ctx.program.func("autobahn.wamp.websocket.WampWebSocketClientProtocol.onConnect")
    ctx.analysed(cf)
    cf = expand_expr_helpers(ctx, cf)
    g2, mf2, res2 = an.get(cf)
    rj = [n for n in g2.stmt_nodes() if n.kind == "stmt" and isinstance(n.ast, ast.Raise)]
    ok = len(rj) == 1 and ("in", "response.protocol", ("e", "self.factory.protocols"), False) in mf2.at(rj[0])
    ctx.ob("client: a subprotocol it did not request is refused", ok, "changed", cf.loc())
    probs, ncell = [], 0
    try:
        for strict in (True, False):
            for selected, want in (("wamp.2.msgpack", "msgpack"), ("wamp.2.json", "json"), ("wamp.2.json.batched", "json.batched"), ("wamp.2.cbor", None), (None, None)):
                env = {"self": _S("transport"), "self.factory": _S("factory", _serializers=dict(SER), protocols=[f"wamp.2.{k_}" for k_ in SER]),
                       "self.STRICT_PROTOCOL_NEGOTIATION": strict, "self.log": _S("log"), cf.params()[1]: _S("response", protocol=selected)}
                r, ser_ = _eval(cf, env)
                ncell += 1
                tag = f"server selected {selected!r} ({'strict' if strict else 'lenient'})"
                if want is not None and (r[0] == "raise" or ser_ is not SER[want]):
                    probs.append(f"{tag}: {r[0]} {str(r[1])[:30]}, serializer {ser_}; expected {SER[want]}")
                elif want is None and strict and r[0] != "raise":
                    probs.append(f"{tag}: accepted with {ser_}, expected the connection to be refused")
                elif want is None and not strict and (r[0] == "raise" or ser_ is not SER["json"]):
                    probs.append(f"{tag}: {r[0]}, serializer {ser_}; expected the JSON serializer assumed")
    except AnalysisError as e:
        raise AnalysisError(f"[C13.7-subprotocol-selection] client onConnect outside the modelled subset: {e}")
    ctx.ob(f"client: serializer taken from the subprotocol the server selected; one it did not request is refused [{ncell} cells]", not probs, "; ".join(probs[:2]), cf.loc())
    # the factory: offered subprotocols and the serializer table come from the same list, in its order
    fac = ctx.program.func("autobahn.wamp.websocket.WampWebSocketFactory.__init__")
    ctx.analysed(fac)
    s1, s2 = _S("s1", SERIALIZER_ID="json"), _S("s2", SERIALIZER_ID="msgpack.batched")
    try:
        env = {"self": _S("factory"), fac.params()[1]: _S("session-factory"), fac.params()[2]: [s1, s2]}
        t_ = _T(env, default_call=_orc, opaque_globals=True, model_strings=True, model_types=True)
        r = t_.run([x for x in fac.node.body if not (isinstance(x, ast.Expr) and isinstance(x.value, ast.Constant))])
        tab = t_.env.get("self._serializers", t_.env["self"].attrs.get("_serializers"))
        prs = t_.env.get("self._protocols", t_.env["self"].attrs.get("_protocols"))
        ok = r[0] != "raise" and isinstance(tab, dict) and set(tab) == {"json", "msgpack.batched"} and tab["json"] is s1 and tab["msgpack.batched"] is s2 and \
            list(prs or ()) == ["wamp.2.json", "wamp.2.msgpack.batched"]
    except AnalysisError as e:
        raise AnalysisError(f"[C13.7-subprotocol-selection] WampWebSocketFactory.__init__ outside the modelled subset: {e}")
    ctx.ob("factory: offered subprotocols and the serializer table are built from the same list [1 cell]", ok, f"table {tab}, protocols {prs}", fac.loc())
    snd = ctx.program.func("autobahn.wamp.websocket.WampWebSocketProtocol.send")
    # cell-wise (sa.core.tiny): whatever (payload, flag) the serializer returns is what sendMessage gets -- names are irrelevant
    from ..core.tiny import Tiny as _T, Sym as _S, Buf as _B
    from .c07_cells import _method_env as _me
    ok = True
    try:
        for flag in (True, False):
            pl = _B(0, 9)
            got = []

            def orc(f_, a_, k_=None, _flag=flag, _pl=pl):
                if f_ == "self.sendMessage":
                    got.append((list(a_), dict(k_ or {})))
                    return None
                if f_ == "self.isOpen":
                    return True
                if f_.endswith("_serializer.serialize"):
                    return [_pl, _flag]
                return _S(f"<{f_}>")
            env = {"self": _S("transport"), snd.params()[1]: _S("message"), "self.log": _S("log"), "self._serializer": _S("serializer"), "self.__class__": _S("class", __name__="X"),
                   "self._session": _S("session", _authid="a", _session_id=1, _authrole="r", _realm="x")}
            _me(ctx, snd.cls, snd, env)
            env.pop("self.sendMessage", None)
            r = _T(env, default_call=orc, opaque_globals=True, model_strings=True).run([x for x in snd.node.body if not (isinstance(x, ast.Expr) and isinstance(x.value, ast.Constant))])
            a_ = got[0][0] if len(got) == 1 else []
            k_ = got[0][1] if len(got) == 1 else {}
            fl = a_[1] if len(a_) > 1 else k_.get("isBinary")
            ok = ok and r[0] != "raise" and len(got) == 1 and a_ and a_[0] is pl and fl is flag
    except AnalysisError as e:
        raise AnalysisError(f"[C13.7-subprotocol-selection] WampWebSocketProtocol.send outside the modelled subset: {e}")
    ctx.ob("WebSocket send: text/binary framing is the flag the serializer returned", ok, "flag not passed through", snd.loc())


def rule_ids(ctx):
    ctx.rule("C13.9-serializer-ids")
    sm = ctx.program.module("autobahn.wamp.serializer")
    ids = {}
    for c in sm.classes.values():
        if "RAWSOCKET_SERIALIZER_ID" in c.consts:
            ok, v = ctx.program.try_const(c.consts["RAWSOCKET_SERIALIZER_ID"], sm, c)
            if ok and isinstance(v, int):
                ctx.ob(f"{c.name}: RawSocket id {v} fits the 4-bit field and is not 0", 1 <= v <= 15, "id outside 1..15", c.loc())
                ctx.ob(f"{c.name}: RawSocket id {v} unique", v not in ids, f"shared with {ids.get(v)}", c.loc())
                ids[v] = c.name
    ctx.require(len(ids) >= 4, "fewer than 4 serializer ids found")
    for q in (f"{TW}.WampRawSocketServerFactory.__init__", f"{AIO}.WampRawSocketServerFactory.__init__"):
        if not ctx.program.has_func(q):
            continue
        fn = ctx.program.func(q)
        t = [s for s in ast.walk(fn.node) if isinstance(s, ast.Assign) and isinstance(s.targets[0], ast.Subscript) and norm.text(s.targets[0].value) == "self._serializers"]
        okk = bool(t) and all(norm.text(s.targets[0].slice).endswith("RAWSOCKET_SERIALIZER_ID") for s in t)
        dc = [s for s in ast.walk(fn.node) if isinstance(s, ast.Assign) and norm.text(s.targets[0]) == "self._serializers" and isinstance(s.value, ast.DictComp)]
        okk = okk or (len(dc) == 1 and norm.text(dc[0].value.key).endswith("RAWSOCKET_SERIALIZER_ID") and norm.text(dc[0].value.value) == norm.text(dc[0].value.key).split(".")[0])
        ctx.ob(f"{q.split('.')[-3]}.{q.split('.')[-2]}: serializer table keyed by RAWSOCKET_SERIALIZER_ID", okk, "key changed", fn.loc())


def rule_refusal_exceptions(ctx):
    """The exception that carries a handshake refusal to data_received (where it is turned into a closed transport) is built from
    octets the peer chose: building it must not raise something else (which no handler on that path catches)."""
    ctx.rule("C13.3-fail-closed-without-escaping")
    an = get_analysis(ctx)
    cg = _cg(ctx)
    m = ctx.program.module(AIO)
    for cname, c in m.classes.items():
        bases = [norm.text(b) for b in c.node.bases]
        if not any(b.endswith("Exception") or b.endswith("Error") for b in bases):
            continue
        init = c.methods.get("__init__")
        if init is None:
            continue
        ctx.analysed(init)
        ef = ExcFlow(ctx.program, an, callgraph=cg, extra_seeds=set(init.params()[1:]), stop=set(), safe={})
        sites = ef.may_raise(init)
        ctx.ob(f"{cname}.__init__ cannot raise while the refusal is being reported", not sites,
               "; ".join(f"{s_.exc} from `{s_.what}`" for s_ in sites[:3]) + ": the peer picks the error code, the resulting exception is not the refusal "
               "exception data_received handles, so it escapes and the transport is never closed", init.loc())


def rule_remainder(ctx):
    """Octets arriving behind the 4-octet handshake (same read or a later one) reach the frame parser exactly once, in order."""
    from ..core.terms import TermEval, show
    ctx.rule("C13.8-octets-behind-the-handshake")
    p = ctx.program
    sites = [(f"{AIO}.RawSocketProtocol.data_received", "self._buffer", "data_received"),
             (f"{TW}.WampRawSocketServerProtocol.dataReceived", "self._handshake_bytes", "dataReceived"),
             (f"{TW}.WampRawSocketClientProtocol.dataReceived", "self._handshake_bytes", "dataReceived")]
    for q, buf, meth in sites:
        fn = p.func(q)
        ctx.analysed(fn)
        te = TermEval(p, fn, inline=lambda c, f: None).run()
        D = ("p", fn.params()[1])
        B = ("attr", ("p", "self"), buf.split(".")[1])
        R = ("op", "-", ("c", 4), ("call", ("g", "len"), (B,), ()))
        acc = ("op", "+", B, D)
        form_a = ("slice", acc, ("c", 4), ("c", None))
        form_b = ("slice", D, R, ("c", None))
        # calls that forward octets to a data-received method (own or base class)
        fwd = []
        for conds, t, st in te.effects:
            if (t[0] == "call" and t[1][0] == "g" and t[1][1].endswith("." + meth)) or (t[0] == "m" and t[2] == meth):
                fwd.append((conds, t, st))
        for o in te.outcomes:
            t = o.term
            if o.kind == "return" and ((t[0] == "call" and t[1][0] == "g" and t[1][1].endswith("." + meth)) or (t[0] == "m" and t[2] == meth)):
                fwd.append((o.conds, t, o.node))
        name = q.split(".")[-2]
        if q.startswith(AIO):
            _aio_remainder_cells(ctx, fn, name)
            if len(fwd) != 2:
                continue   # the hand-off is not in the two-site form the term comparison reads: the cells above decide
        ctx.require(len(fwd) == 2, f"{q}: expected the established-path and the handshake-path hand-off, found {len(fwd)}")
        for conds, t, st in fwd:
            arg = (t[2] if t[0] == "call" else t[3])[-1]
            established = any(pl for c, pl in conds if c[0] == "attr" and c[2] in ("_handshake_done", "_handshake_complete"))
            if established:
                ctx.ob(f"{name}: after the handshake every chunk goes to the frame parser unchanged", arg == D, f"forwards {show(arg)[:80]}", fn.loc(st))
                continue
            ok = arg == form_a
            if arg == form_b:
                # the consumed prefix must be the complementary slice of the same chunk
                stored = te.env.get(buf)
                ok = stored is not None and any(x == ("op", "+", B, ("slice", D, ("c", None), R)) for x in _subterms13(stored))
            ctx.ob(f"{name}: octets behind the 4 handshake octets are taken from the accumulated stream (nothing lost or repeated under any read split)", ok,
                   f"forwards {show(arg)[:120]}: with a handshake split across reads the wrong slice reaches the frame parser (messages pipelined behind the "
                   f"handshake are lost or misframed)", fn.loc(st))


def _aio_remainder_cells(ctx, fn, name):
    """asyncio RawSocketProtocol.data_received before the handshake is complete, evaluated (sa.core.tiny) over (octets buffered so far) x (length of
    this read): the handshake is judged exactly when the fourth octet is there; what lies behind it must reach the frame parser NOW (a peer that
    pipelines its first message behind the handshake sends nothing more until it is answered), exactly once and in order."""
    from ..core.tiny import Tiny, Sym, Buf
    body = [x for x in fn.node.body if not (isinstance(x, ast.Expr) and isinstance(x.value, ast.Constant))]
    probs, n = [], 0
    try:
        for k in range(4):
            for d in range(7):
                judged, attached, parsed = [], [], []

                def default(f_, a_, k_=None):
                    if f_ == "self.process_handshake":
                        judged.append(1)
                        return None
                    if f_ == "self._on_handshake_complete":
                        attached.append(1)
                        return None
                    if f_.endswith(".data_received"):
                        # the frame parser works on (its buffer + the chunk it is given)
                        chunk = a_[-1] if a_ else None
                        parsed.append((t.env.get("self._buffer"), chunk))
                        return None
                    return Sym(f"<{f_}>")
                t = Tiny({"self": Sym("protocol"), "self._handshake_done": False, "self._buffer": Buf(0, k), fn.params()[1]: Buf(k, k + d), "self.log": Sym("log")},
                         default_call=default, opaque_globals=True, model_strings=True)
                r = t.run(body)
                n += 1
                cell = f"{k} handshake octet(s) buffered, read of {d} octet(s)"
                have = k + d
                if r[0] == "raise":
                    probs.append(f"{cell}: raises {r[1]}")
                    continue
                if (len(judged) == 1) != (have >= 4) or len(judged) > 1 or len(attached) != len(judged):
                    probs.append(f"{cell}: handshake judged {len(judged)} time(s), session attached {len(attached)} time(s)")
                    continue
                if have > 4:
                    seen = []
                    for b_, c_ in parsed:
                        for x_ in (b_, c_):
                            if isinstance(x_, Buf) and len(x_):
                                seen.append((x_.lo, x_.hi))
                    # contiguous cover of stream[4:have], each octet once
                    seen.sort()
                    ok = bool(parsed) and seen and seen[0][0] == 4 and seen[-1][1] == have and all(seen[i][1] == seen[i + 1][0] for i in range(len(seen) - 1))
                    if not ok:
                        probs.append(f"{cell}: the {have - 4} octet(s) behind the handshake "
                                     + ("are left in the buffer and the frame parser is not entered (they wait for the next read, which a peer awaiting a reply never sends)"
                                        if not parsed else f"reach the frame parser as {seen}, expected stream[4:{have}] once"))
                elif any(isinstance(x_, Buf) and len(x_) for b_, c_ in parsed for x_ in (b_, c_)):
                    probs.append(f"{cell}: the frame parser is given octets although nothing lies behind the handshake")
    except AnalysisError as e:
        raise AnalysisError(f"[C13.8-octets-behind-the-handshake] {name}.data_received outside the modelled subset: {e}")
    ctx.ob(f"{name}: octets behind the 4 handshake octets reach the frame parser at once, exactly once and in order, for every split of the stream [{n} cells]",
           not probs, "; ".join(probs[:2]), fn.loc())


def _subterms13(t):
    from ..core.terms import subterms
    return subterms(t)


def run(ctx):
    rule_remainder(ctx)
    rule_refusal_exceptions(ctx)
    rule_handshake_tables(ctx)
    rule_requests(ctx)
    rule_announced_is_enforced(ctx)
    rule_abort_siblings(ctx)
    rule_limits(ctx)
    rule_subprotocol(ctx)
    rule_ids(ctx)
    # "both ends use that serializer with the matching text/binary framing; a frame of the wrong type closes the transport": the session
    # serializer refuses a frame whose text/binary flag differs from its own, and the three transports hand the flag on (checked in C13.3)
    from .c08 import rule_envelope
    rule_envelope(ctx, "C13.10-frame-type-matches-serializer")
