"""C11 - Events reach exactly the handlers subscribed at that moment."""
import ast

from ..core.index import AnalysisError, walk_no_defs, calls_in, call_name, kwarg
from ..core.cfg import node_calls, stored_lvalues
from ..core import norm
from .common import get_analysis, is_self_attr, self_call, stmt_key, APPSESSION
from .wampsess import get_onmessage

META = {
    "explanation": "Rules over the EVENT arm and the subscription bookkeeping: no store inside the per-handler fan-out loop may target an "
                   "object that may-aliases loop-invariant message state (alias sets from the assignments in the loop); each handler is "
                   "invoked through txaio.as_future with an errback that swallows; arguments come from msg.args/msg.kwargs, details only "
                   "for handlers that asked; SUBSCRIBED appends in order; _unsubscribe removes and deactivates before counting and sends "
                   "UNSUBSCRIBE iff the count is 0; an EVENT for an unknown id is a ProtocolError.",
    "assumptions": ["histories of subscribe/unsubscribe/EVENT are not decided"],
}


def rule_no_shared_mutation(ctx):
    ctx.rule("C11.1-no-shared-payload-mutation")
    om = get_onmessage(ctx)
    g, mf, res = om.g, om.mf, om.res
    nodes = om.arm_nodes("Event")
    loops = [n for n in nodes if n.kind == "for" and norm.text(n.ast.iter) == "self._subscriptions[msg.subscription]"]
    ctx.require(len(loops) == 1, "EVENT arm: handler fan-out loop not found")
    L = loops[0].ast
    # may-alias sets: name -> set of message-state expressions it may alias
    invariant = {"msg.kwargs", "msg.args", "msg"}
    alias = {}
    changed = True
    body_assigns = [s for s in ast.walk(L) if isinstance(s, ast.Assign) and isinstance(s.targets[0], ast.Name)]
    while changed:
        changed = False
        for s in body_assigns:
            v = s.value
            srcs = set()
            cands = [v.body, v.orelse] if isinstance(v, ast.IfExp) else [v]
            for c in cands:
                t = norm.text(c)
                if t in invariant:
                    srcs.add(t)
                elif isinstance(c, ast.Name) and c.id in alias:
                    srcs |= alias[c.id]
            if srcs and not srcs <= alias.get(s.targets[0].id, set()):
                alias.setdefault(s.targets[0].id, set()).update(srcs)
                changed = True
    count = 0
    for s in ast.walk(L):
        tgt = None
        if isinstance(s, ast.Assign):
            for t in s.targets:
                if isinstance(t, ast.Subscript):
                    tgt = t.value
        elif isinstance(s, ast.AugAssign) and isinstance(s.target, ast.Subscript):
            tgt = s.target.value
        elif isinstance(s, ast.Expr) and isinstance(s.value, ast.Call) and isinstance(s.value.func, ast.Attribute) and \
                s.value.func.attr in ("update", "append", "extend", "pop", "setdefault", "clear", "insert", "remove"):
            tgt = s.value.func.value
        if tgt is None:
            continue
        count += 1
        t = norm.text(tgt)
        al = alias.get(t, set()) | ({t} if t in invariant else set())
        shared = al & {"msg.kwargs", "msg.args"}
        ctx.ob(f"fan-out loop: `{stmt_key(s)[:50]}` does not modify the event's own payload", not shared,
               f"`{t}` may alias {sorted(shared)} (shared by all handlers of this EVENT): what one handler's invocation adds is seen by the next handler", om.fn.loc(s))
    ctx.require(count >= 1, "no container stores found in the fan-out loop (positive example lost)")


def rule_isolation(ctx):
    ctx.rule("C11.2-per-handler-isolation")
    om = get_onmessage(ctx)
    g, mf, res = om.g, om.mf, om.res
    nodes = om.arm_nodes("Event")
    calls = [(n, c) for n in nodes for c in node_calls(n) if call_name(c) == "txaio.as_future" and c.args and norm.text(c.args[0]) == "handler.fn"]
    ctx.ob("handler invoked through txaio.as_future(handler.fn, *invoke_args, **invoke_kwargs)", len(calls) == 1 and [norm.text(a) for a in calls[0][1].args[1:]] == ["*invoke_args"] and
           [norm.text(k.value) for k in calls[0][1].keywords if k.arg is None] == ["invoke_kwargs"], "handler call changed", om.fn.loc())
    cbs = [(n, c) for n in nodes for c in node_calls(n) if call_name(c) == "txaio.add_callbacks"]
    ok = len(cbs) == 1 and [norm.text(a) for a in cbs[0][1].args] == ["future", "_success", "_error"]
    ctx.ob("each handler's future gets its own errback", ok, "errback wiring changed", om.fn.loc())
    errs = [c for c in om.closures() if c.name == "_error" and om.closure_arm(c)[0] == "Event"]
    ctx.require(len(errs) == 1, "EVENT arm: _error closure not found")
    e = errs[0]
    rets = [s for s in walk_no_defs(e.node) if isinstance(s, ast.Return)]
    okr = len(rets) == 1 and isinstance(rets[0].value, ast.Call) and norm.text(rets[0].value.func) == "self._swallow_error" and not any(isinstance(s, ast.Raise) for s in walk_no_defs(e.node))
    ctx.ob("a failing handler is logged and swallowed (no re-raise)", okr, "_error no longer returns through _swallow_error", e.loc())
    sw = ctx.program.func(f"{APPSESSION}._swallow_error")
    rr = [s for s in walk_no_defs(sw.node) if isinstance(s, ast.Return)]
    ctx.ob("_swallow_error cancels the error (returns None, never raises)", len(rr) == 1 and norm.text(rr[0].value) == "None" and not any(isinstance(s, ast.Raise) for s in walk_no_defs(sw.node)), "changed", sw.loc())
    # nothing in the loop raises; early exits only on the payload-decryption failure paths
    loops = [n for n in nodes if n.kind == "for" and norm.text(n.ast.iter) == "self._subscriptions[msg.subscription]"]
    L = loops[0].ast
    raises = [s for s in walk_no_defs(L) if isinstance(s, ast.Raise)]
    ctx.ob("nothing in the fan-out loop raises", not raises, f"{[stmt_key(r)[:40] for r in raises]}", om.fn.loc())
    for n in nodes:
        if n.kind == "stmt" and isinstance(n.ast, (ast.Return, ast.Break)) and any(n.ast is x for x in ast.walk(L)):
            ok = ("truth", "msg.enc_algo", None, True) in (mf.at(n) or ())
            ctx.ob(f"early exit `{stmt_key(n.ast)}` in the loop only on an undecodable encrypted payload", ok, "one handler's path ends delivery to the remaining handlers", om.fn.loc(n.ast))


def rule_arguments(ctx):
    ctx.rule("C11.3-handler-arguments")
    om = get_onmessage(ctx)
    g, mf, res = om.g, om.mf, om.res
    nodes = om.arm_nodes("Event")
    ia = [(n, norm.text(n.ast.value)) for n in nodes if n.kind == "stmt" and isinstance(n.ast, ast.Assign) and norm.text(n.ast.targets[0]) == "invoke_args"]
    ctx.ob("positional arguments = (handler.obj,)? + tuple(msg.args)", sorted(v for _, v in ia) == sorted(["(handler.obj,) if handler.obj else tuple()", "invoke_args + tuple(msg.args)"]), f"{[v for _, v in ia]}", om.fn.loc())
    for n, v in ia:
        if "msg.args" in v:
            ctx.ob("msg.args unpacked only when present", ("truth", "msg.args", None, True) in mf.at(n), "tuple(None)", om.fn.loc(n.ast))
    ik = [(n, n.ast.value) for n in nodes if n.kind == "stmt" and isinstance(n.ast, ast.Assign) and norm.text(n.ast.targets[0]) == "invoke_kwargs"]
    ctx.ob("keyword arguments come from msg.kwargs", len(ik) == 1 and "msg.kwargs" in norm.text(ik[0][1]), f"{[norm.text(v) for _, v in ik]}", om.fn.loc())
    det = [n for n in nodes if n.kind == "stmt" and isinstance(n.ast, ast.Assign) and norm.text(n.ast.targets[0]) == "invoke_kwargs[handler.details_arg]"]
    ok = len(det) == 1 and ("truth", "handler.details_arg", None, True) in mf.at(det[0])
    ctx.ob("event details only for handlers that asked for them", ok, "details injected for every handler", om.fn.loc())
    if det:
        c = det[0].ast.value
        ok = isinstance(c, ast.Call) and call_name(c) == "types.EventDetails" and [norm.text(a) for a in c.args[:2]] == ["subscription", "msg.publication"]
        ctx.ob("details built from this handler's subscription and the event's publication id", ok, "EventDetails arguments changed", om.fn.loc(det[0].ast))
    hd = [n for n in nodes if n.kind == "stmt" and isinstance(n.ast, ast.Assign) and norm.text(n.ast.targets[0]) == "handler"]
    ctx.ob("handler is the loop subscription's handler", len(hd) == 1 and norm.text(hd[0].ast.value) == "subscription.handler", "changed", om.fn.loc())


def rule_lists(ctx):
    ctx.rule("C11.4-handler-list-maintenance")
    om = get_onmessage(ctx)
    an = om.an
    g, mf, res = om.g, om.mf, om.res
    nodes = om.arm_nodes("Subscribed")
    app = [(n, c) for n in nodes for c in node_calls(n) if isinstance(c.func, ast.Attribute) and c.func.attr in ("append", "insert", "extend") and "self._subscriptions" in norm.text(c.func.value)]
    ok = len(app) == 1 and app[0][1].func.attr == "append" and norm.text(app[0][1].func.value) == "self._subscriptions[msg.subscription]" and norm.text(app[0][1].args[0]) == "subscription"
    ctx.ob("SUBSCRIBED: handler appended at the end of the id's list (subscription order)", ok, "append changed", om.fn.loc())
    cr = [n for n in nodes if n.kind == "stmt" and isinstance(n.ast, ast.Assign) and norm.text(n.ast.targets[0]) == "self._subscriptions[msg.subscription]"]
    ok = len(cr) == 1 and norm.text(cr[0].ast.value) == "[]" and ("in", "msg.subscription", ("e", "self._subscriptions"), False) in mf.at(cr[0])
    ctx.ob("SUBSCRIBED: list created only when the id is new", ok, "existing handler list overwritten", om.fn.loc())
    sub = [n for n in nodes if n.kind == "stmt" and isinstance(n.ast, ast.Assign) and norm.text(n.ast.targets[0]) == "subscription"]
    ok = len(sub) == 1 and norm.text(sub[0].ast.value) == "Subscription(msg.subscription, request.topic, self, request.handler)"
    ctx.ob("SUBSCRIBED: subscription object built from the reply id and the request's topic/handler", ok, "changed", om.fn.loc())
    # _unsubscribe
    fn = ctx.program.func(f"{APPSESSION}._unsubscribe")
    ctx.analysed(fn)
    g2, mf2, res2 = an.get(fn)
    rm = [(n, c) for n in g2.stmt_nodes() for c in node_calls(n) if norm.text(c.func) == "self._subscriptions[subscription.id].remove"]
    inact = [n for n in g2.stmt_nodes() if n.kind == "stmt" and isinstance(n.ast, ast.Assign) and norm.text(n.ast.targets[0]) == "subscription.active" and norm.text(n.ast.value) == "False"]
    cnt = [n for n in g2.stmt_nodes() if n.kind == "stmt" and isinstance(n.ast, ast.Assign) and norm.text(n.ast.targets[0]) == "scount"]
    ok = len(rm) == 1 and norm.text(rm[0][1].args[0]) == "subscription" and len(inact) == 1 and len(cnt) == 1 and norm.text(cnt[0].ast.value) == "len(self._subscriptions[subscription.id])" and \
        g2.always_preceded_by(cnt[0], lambda x: x is rm[0][0]) and g2.always_preceded_by(cnt[0], lambda x: x is inact[0])
    ctx.ob("_unsubscribe: handler removed and deactivated before the remaining handlers are counted", ok, "order changed", fn.loc())
    sends = [(n, c) for n in g2.stmt_nodes() for c in node_calls(n) if norm.text(c.func) == "self._transport.send"]
    ok = len(sends) == 1 and ("eq", "scount", ("c", 0), True) in mf2.at(sends[0][0])
    ctx.ob("_unsubscribe: UNSUBSCRIBE sent exactly when no handler is left (count == 0)", ok, "UNSUBSCRIBE condition changed", fn.loc())
    other = [n for n in g2.stmt_nodes() if n.kind == "stmt" and isinstance(n.ast, ast.Return) and ("eq", "scount", ("c", 0), False) in mf2.at(n)]
    ctx.ob("_unsubscribe: otherwise completes locally without a message", len(other) == 1 and "create_future_success" in norm.text(other[0].ast.value), "changed", fn.loc())
    # Unsubscribed arm
    nodes = om.arm_nodes("Unsubscribed")
    dl = [n for n in nodes if n.kind == "stmt" and isinstance(n.ast, ast.Delete) and norm.text(n.ast.targets[0]) == "self._subscriptions[request.subscription_id]"]
    ia = [n for n in nodes if n.kind == "stmt" and isinstance(n.ast, ast.Assign) and norm.text(n.ast.targets[0]) == "subscription.active" and norm.text(n.ast.value) == "False"]
    ok = len(dl) == 1 and len(ia) == 1 and ("in", "request.subscription_id", ("e", "self._subscriptions"), True) in mf.at(dl[0])
    ctx.ob("UNSUBSCRIBED: remaining handlers deactivated and the id forgotten", ok, "changed", om.fn.loc())
    # Subscription.unsubscribe delegates
    sc = ctx.program.cls("autobahn.wamp.request.Subscription")
    un = sc.methods.get("unsubscribe")
    ctx.require(un is not None, "Subscription.unsubscribe missing")
    g3, mf3, res3 = an.get(un)
    de = [(n, c) for n in g3.stmt_nodes() for c in node_calls(n) if norm.text(c.func) == "self.session._unsubscribe"]
    ok = len(de) == 1 and ("truth", "self.active", None, True) in mf3.at(de[0][0])
    ctx.ob("Subscription.unsubscribe: only an active subscription is unsubscribed", ok, "active check changed", un.loc())


def rule_unknown(ctx):
    ctx.rule("C11.5-unknown-subscription")
    om = get_onmessage(ctx)
    g, mf, res = om.g, om.mf, om.res
    nodes = om.arm_nodes("Event")
    t = [n for n in nodes if n.kind == "test" and norm.atoms(n.ast, True, res) == [("in", "msg.subscription", ("e", "self._subscriptions"), True)]]
    ctx.require(len(t) == 1, "EVENT arm: subscription lookup not found")
    fs = [m for m, lab in t[0].succ if lab and lab[0] == "F"]
    ok = all(m.kind == "stmt" and isinstance(m.ast, ast.Raise) and "ProtocolError" in norm.text(m.ast.exc) for m in fs)
    ctx.ob("EVENT for an id the session never held is a protocol violation", ok, "unknown subscription id not answered with ProtocolError", om.fn.loc())
    loops = [n for n in nodes if n.kind == "for"]
    ctx.ob("handlers are visited by iterating the id's list (an empty list delivers nothing, silently)", len(loops) == 1 and norm.text(loops[0].ast.iter) == "self._subscriptions[msg.subscription]", "iteration changed", om.fn.loc())


def run(ctx):
    rule_no_shared_mutation(ctx)
    rule_isolation(ctx)
    rule_arguments(ctx)
    rule_lists(ctx)
    rule_unknown(ctx)
