"""C11 - Events reach exactly the handlers subscribed at that moment."""
import ast

from ..core.index import AnalysisError, walk_no_defs, calls_in, call_name, kwarg
from ..core.cfg import node_calls, stored_lvalues
from ..core import norm
from .common import get_analysis, is_self_attr, self_call, stmt_key, APPSESSION
from .wampsess import get_onmessage

META = {
    "explanation": "Rules over the EVENT arm and the subscription bookkeeping: no store inside the per-handler fan-out loop may target an "
                   "object that may-aliases loop-invariant message state (alias sets from the assignments in the loop); each handler is "
                   "invoked through txaio.as_future with an errback that swallows; arguments come from msg.args/msg.kwargs, details only "
                   "for handlers that asked; SUBSCRIBED appends in order; _unsubscribe removes and deactivates before counting and sends "
                   "UNSUBSCRIBE iff the count is 0; an EVENT for an unknown id is a ProtocolError.",
    "assumptions": ["histories of subscribe/unsubscribe/EVENT are not decided"],
}


def _fanout(om):
    """(loop AST, CFG node) of the handler fan-out in the EVENT arm: the for-loop that contains the handler invocation
    txaio.as_future(handler.fn, ...)."""
    nodes = om.arm_nodes("Event")
    for n in nodes:
        if n.kind == "for" and any(isinstance(c, ast.Call) and call_name(c) == "txaio.as_future" and c.args and norm.text(c.args[0]).endswith(".fn") for c in ast.walk(n.ast)):
            return n.ast, n
    raise AnalysisError("EVENT arm: handler fan-out loop not found")


def rule_no_shared_mutation(ctx):
    ctx.rule("C11.1-no-shared-payload-mutation")
    om = get_onmessage(ctx)
    g, mf, res = om.g, om.mf, om.res
    nodes = om.arm_nodes("Event")
    L, _ln = _fanout(om)
    # may-alias sets: name -> set of message-state expressions it may alias
    invariant = {"msg.kwargs", "msg.args", "msg"}
    alias = {}
    changed = True
    body_assigns = [s for s in ast.walk(L) if isinstance(s, ast.Assign) and isinstance(s.targets[0], ast.Name)]
    while changed:
        changed = False
        for s in body_assigns:
            v = s.value
            srcs = set()
            cands = [v.body, v.orelse] if isinstance(v, ast.IfExp) else [v]
            for c in cands:
                t = norm.text(c)
                if t in invariant:
                    srcs.add(t)
                elif isinstance(c, ast.Name) and c.id in alias:
                    srcs |= alias[c.id]
            if srcs and not srcs <= alias.get(s.targets[0].id, set()):
                alias.setdefault(s.targets[0].id, set()).update(srcs)
                changed = True
    count = 0
    for s in ast.walk(L):
        tgt = None
        if isinstance(s, ast.Assign):
            for t in s.targets:
                if isinstance(t, ast.Subscript):
                    tgt = t.value
        elif isinstance(s, ast.AugAssign) and isinstance(s.target, ast.Subscript):
            tgt = s.target.value
        elif isinstance(s, ast.Expr) and isinstance(s.value, ast.Call) and isinstance(s.value.func, ast.Attribute) and \
                s.value.func.attr in ("update", "append", "extend", "pop", "setdefault", "clear", "insert", "remove"):
            tgt = s.value.func.value
        if tgt is None:
            continue
        count += 1
        t = norm.text(tgt)
        al = alias.get(t, set()) | ({t} if t in invariant else set())
        shared = al & {"msg.kwargs", "msg.args"}
        ctx.ob(f"fan-out loop: `{stmt_key(s)[:50]}` does not modify the event's own payload", not shared,
               f"`{t}` may alias {sorted(shared)} (shared by all handlers of this EVENT): what one handler's invocation adds is seen by the next handler", om.fn.loc(s))
    ctx.require(count >= 1, "no container stores found in the fan-out loop (positive example lost)")


def rule_isolation(ctx):
    ctx.rule("C11.2-per-handler-isolation")
    om = get_onmessage(ctx)
    g, mf, res = om.g, om.mf, om.res
    nodes = om.arm_nodes("Event")
    # the handler is the fan-out loop's variable, whatever it is called; what it receives is decided cell-wise in C11.3
    L0, _ = _fanout(om)
    LV = L0.target.id if isinstance(L0.target, ast.Name) else None
    hdefs = {s_.targets[0].id for s_ in ast.walk(L0) if isinstance(s_, ast.Assign) and len(s_.targets) == 1 and isinstance(s_.targets[0], ast.Name)
             and norm.text(s_.value) == f"{LV}.handler"} | {LV}
    calls = [(n, c) for n in nodes for c in node_calls(n) if call_name(c) == "txaio.as_future" and c.args and isinstance(c.args[0], ast.Attribute) and c.args[0].attr == "fn"
             and isinstance(c.args[0].value, ast.Name) and c.args[0].value.id in hdefs and any(c is x for x in ast.walk(L0))]
    ctx.ob("handler invoked through txaio.as_future(handler.fn, *invoke_args, **invoke_kwargs)", len(calls) == 1 and len(calls[0][1].args) == 2 and
           isinstance(calls[0][1].args[1], ast.Starred) and isinstance(calls[0][1].args[1].value, ast.Name) and
           len([k for k in calls[0][1].keywords if k.arg is None and isinstance(k.value, ast.Name)]) == 1 and len(calls[0][1].keywords) == 1, "handler call changed", om.fn.loc())
    cbs = [(n, c) for n in nodes for c in node_calls(n) if call_name(c) == "txaio.add_callbacks"]
    # the future is whatever the handler invocation's result is assigned to
    futn = [n.ast.targets[0].id for n, c in calls if n.kind == "stmt" and isinstance(n.ast, ast.Assign) and len(n.ast.targets) == 1 and isinstance(n.ast.targets[0], ast.Name)
            and n.ast.value is c]
    ok = len(cbs) == 1 and [norm.text(a) for a in cbs[0][1].args] == [futn[0] if futn else "future", "_success", "_error"]
    ctx.ob("each handler's future gets its own errback", ok, "errback wiring changed", om.fn.loc())
    errs = [c for c in om.closures() if c.name == "_error" and om.closure_arm(c)[0] == "Event"]
    ctx.require(len(errs) == 1, "EVENT arm: _error closure not found")
    e = errs[0]
    rets = [s for s in walk_no_defs(e.node) if isinstance(s, ast.Return)]
    okr = len(rets) == 1 and isinstance(rets[0].value, ast.Call) and norm.text(rets[0].value.func) == "self._swallow_error" and not any(isinstance(s, ast.Raise) for s in walk_no_defs(e.node))
    ctx.ob("a failing handler is logged and swallowed (no re-raise)", okr, "_error no longer returns through _swallow_error", e.loc())
    sw = ctx.program.func(f"{APPSESSION}._swallow_error")
    rr = [s for s in walk_no_defs(sw.node) if isinstance(s, ast.Return)]
    ctx.ob("_swallow_error cancels the error (returns None, never raises)", len(rr) == 1 and norm.text(rr[0].value) == "None" and not any(isinstance(s, ast.Raise) for s in walk_no_defs(sw.node)), "changed", sw.loc())
    # nothing in the loop raises; early exits only on the payload-decryption failure paths
    L, _ln = _fanout(om)
    raises = [s for s in walk_no_defs(L) if isinstance(s, ast.Raise)]
    ctx.ob("nothing in the fan-out loop raises", not raises, f"{[stmt_key(r)[:40] for r in raises]}", om.fn.loc())
    for n in nodes:
        if n.kind == "stmt" and isinstance(n.ast, (ast.Return, ast.Break)) and any(n.ast is x for x in ast.walk(L)):
            ok = ("truth", "msg.enc_algo", None, True) in (mf.at(n) or ())
            ctx.ob(f"early exit `{stmt_key(n.ast)}` in the loop only on an undecodable encrypted payload", ok, "one handler's path ends delivery to the remaining handlers", om.fn.loc(n.ast))


def rule_arguments(ctx):
    """What each handler receives, decided cell by cell over (bound object, published args, published kwargs, details requested)."""
    from ..core.tiny import Tiny, Sym
    ctx.rule("C11.3-handler-arguments")
    om = get_onmessage(ctx)
    L, ln = _fanout(om)
    calls = [c for c in ast.walk(L) if isinstance(c, ast.Call) and call_name(c) == "txaio.as_future" and c.args and norm.text(c.args[0]).endswith(".fn")]
    ctx.require(len(calls) == 1, "EVENT arm: handler invocation not found")
    ec = calls[0]
    H = norm.text(ec.args[0])[:-3]
    star = [a for a in ec.args[1:] if isinstance(a, ast.Starred)]
    dstar = [k for k in ec.keywords if k.arg is None]
    ok = len(ec.args) == 2 and len(star) == 1 and isinstance(star[0].value, ast.Name) and len(dstar) == 1 and isinstance(dstar[0].value, ast.Name) and len(ec.keywords) == 1
    ctx.ob("handler invoked with (*<positional>, **<keywords>) only", ok, "handler call changed", om.fn.loc(ec))
    hdef = [s_ for s_ in ast.walk(L) if isinstance(s_, ast.Assign) and norm.text(s_.targets[0]) == H]
    ctx.ob("handler is the loop subscription's handler", len(hdef) == 1 and isinstance(L.target, ast.Name) and norm.text(hdef[0].value) == f"{L.target.id}.handler", "changed", om.fn.loc())
    if not ok:
        return
    # evaluate the whole EVENT branch on a table with three handlers of different kinds
    ev_body = _arm_body(om, "Event")
    problems = []
    try:
        ed = ctx.program.cls("autobahn.wamp.types.EventDetails").methods["__init__"].params()[1:]
        fields = ("publisher", "publisher_authid", "publisher_authrole", "transaction_hash", "retained", "forward_for")
        for args, kw, ev_topic in [(a_, k_, t_) for a_ in (None, [], [Sym("a0")]) for k_ in (None, {}, {"k": Sym("v")}) for t_ in (None, "com.topic.leaf")]:
                kinds = [(None, None), (Sym("obj"), "details"), (Sym("obj0", truthy=False), "d")]
                subs_ = []
                for i, (obj, det) in enumerate(kinds):
                    h = Sym(f"handler{i}", fn=Sym(f"fn{i}"), obj=obj, details_arg=det)
                    subs_.append(Sym(f"subscription{i}", handler=h, topic="com.topic", id=55, active=True))
                kw0 = dict(kw) if kw is not None else None
                env = {"msg.subscription": 55, "self._subscriptions": {55: subs_}, "self": Sym("session"), "msg.args": args, "msg.kwargs": kw, "msg.publication": 4711,
                       "msg.topic": ev_topic, "msg.enc_algo": None, "msg.x_acknowledged_delivery": None}
                for nm in ("payload", "enc_serializer", "enc_key"):
                    env[f"msg.{nm}"] = None
                for nm in fields:
                    env[f"msg.{nm}"] = Sym(f"event-{nm}")
                invoked = []

                def default(fname, a_, k_=None):
                    if fname == "txaio.as_future":
                        invoked.append((a_[0], list(a_[1:]), dict(k_ or {})))
                        return Sym("future")
                    if fname == "types.EventDetails":
                        bound = dict(zip(ed, a_))
                        bound.update(k_ or {})
                        return Sym("details", args=list(a_), bound=bound)
                    return Sym(f"<{fname}>")
                t = Tiny(env, default_call=default)
                r = t.run(ev_body)
                if r[0] not in ("fall", "return"):
                    problems.append(f"published args {args}, kwargs {kw0}: delivery ends with {r}")
                    continue
                if [x[0] for x in invoked] != [s_.attrs["handler"].attrs["fn"] for s_ in subs_]:
                    problems.append(f"published args {args}, kwargs {kw0}: handlers invoked {[x[0] for x in invoked]}, expected each of the three once, in subscription order")
                    continue
                for (fn_, got_a, got_k), s_ in zip(invoked, subs_):
                    h = s_.attrs["handler"]
                    obj, det = h.attrs["obj"], h.attrs["details_arg"]
                    want_a = ([obj] if obj is not None else []) + list(args or [])
                    if not (len(got_a) == len(want_a) and all(x is y for x, y in zip(got_a, want_a))):
                        problems.append(f"handler bound to {obj}, published args {args}: gets positional {got_a}, expected {want_a}")
                    if {k_: v_ for k_, v_ in got_k.items() if k_ != det} != dict(kw0 or {}) or ((det in got_k) != (det is not None)):
                        problems.append(f"handler with details_arg {det!r}, published kwargs {kw0}: gets keywords {got_k}")
                    if det is not None and det in got_k:
                        d = got_k[det]
                        if not (isinstance(d, Sym) and d.name == "details" and len(d.attrs["args"]) >= 2 and d.attrs["args"][0] is s_ and d.attrs["args"][1] == 4711):
                            problems.append(f"{s_.name}: the event details it gets are not built from its own subscription and the event's publication id")
                        elif isinstance(d, Sym):
                            b = d.attrs["bound"]
                            want_topic = ev_topic or "com.topic"
                            if b.get("topic") != want_topic:
                                problems.append(f"event published to {ev_topic!r} on a subscription to 'com.topic': details.topic is {b.get('topic')!r}, expected {want_topic!r}")
                            for nm in fields:
                                if b.get(nm) is not env[f"msg.{nm}"]:
                                    problems.append(f"details.{nm} is {b.get(nm)!r}, expected the EVENT's {nm}")
                if kw is not None and kw != kw0:
                    problems.append(f"published kwargs {kw0}: the event's own kwargs dict was modified to {kw} while fanning out")
        ctx.ob("every handler of the id is invoked once, in order, with (bound object if any) + the published args, the published kwargs and its own details iff requested "
               "(topic the event was published to, publisher, ... from the EVENT) [3 handler kinds x 18 event shapes]", not problems, "; ".join(sorted(set(problems))[:2]), om.fn.loc(ec))
    except AnalysisError as e:
        raise AnalysisError(f"[C11.3-handler-arguments] EVENT branch outside the modelled subset: {e}")


def rule_reentrant_unsubscribe(ctx):
    """A handler may unsubscribe (itself or a sibling) while the event is being delivered -- unsubscribe() removes the entry from the
    handler list the fan-out walks.  Cell-wise over (which handler unsubscribes, which one is removed): every handler attached when the
    event arrived and still subscribed at its turn is invoked exactly once, in order; nobody is skipped because the list shrank."""
    from ..core.tiny import Tiny, Sym
    ctx.rule("C11.2-per-handler-isolation")
    om = get_onmessage(ctx)
    ev_body = _arm_body(om, "Event")
    problems = []
    try:
        for who in range(3):
            for whom in range(3):
                subs_ = []
                for i in range(3):
                    h = Sym(f"handler{i}", fn=Sym(f"fn{i}"), obj=None, details_arg=None)
                    subs_.append(Sym(f"subscription{i}", handler=h, topic="com.topic", id=55, active=True))
                order = list(subs_)
                table = {55: subs_}
                env = {"msg.subscription": 55, "self._subscriptions": table, "self": Sym("session"), "msg.args": None, "msg.kwargs": None, "msg.publication": 1,
                       "msg.topic": None, "msg.enc_algo": None, "msg.x_acknowledged_delivery": None}
                for nm in ("publisher", "publisher_authid", "publisher_authrole", "transaction_hash", "retained", "forward_for", "payload", "enc_serializer", "enc_key"):
                    env[f"msg.{nm}"] = None
                invoked = []

                def default(fname, a_, k_=None):
                    if fname == "txaio.as_future":
                        k = [s_.attrs["handler"].attrs["fn"] for s_ in order].index(a_[0])
                        invoked.append(k)
                        if k == who and order[whom] in table[55]:
                            table[55].remove(order[whom])  # what Subscription.unsubscribe() -> _unsubscribe() does
                            order[whom].attrs["active"] = False
                        return Sym("future")
                    return Sym(f"<{fname}>")
                t = Tiny(env, default_call=default)
                r = t.run(ev_body)
                want = [k for k in range(3) if not (whom > who and k == whom)]
                if r[0] not in ("fall", "return") or invoked != want:
                    problems.append(f"handler {who} unsubscribes handler {whom} while being called: invoked {invoked} ({r[0]}), expected {want}")
        ctx.ob("a handler that unsubscribes (itself or a sibling) during delivery does not make another handler miss or repeat the event [9 cells]", not problems,
               "; ".join(problems[:2]), om.fn.loc())
    except AnalysisError as e:
        raise AnalysisError(f"[C11.2-per-handler-isolation] EVENT branch outside the modelled subset: {e}")


def _arm_body(om, arm):
    """Statement list of the `isinstance(msg, message.<arm>)` branch of onMessage."""
    for x in ast.walk(om.fn.node):
        if isinstance(x, ast.If) and norm.atoms(x.test, True, om.res) == [("isinst", "msg", f"message.{arm}", True)]:
            return x.body
    raise AnalysisError(f"onMessage: {arm} arm not found")


def _mk_calls(trace_sends):
    from ..core.tiny import Sym

    def default(fname, args):
        if fname == "Subscription" and len(args) == 4:
            return Sym("new-subscription", id=args[0], topic=args[1], session=args[2], handler=args[3], active=True)
        if fname == "txaio.is_future":
            return True
        if fname == "txaio.is_called":
            return False
        if fname == "isinstance":
            return True
        if fname.endswith("._transport.send"):
            trace_sends.append(args)
            return None
        return Sym(f"<{fname}>", args=args)
    return default


def _event_visit(ev_body, table):
    """Evaluate the EVENT branch on `table` (id 55): ('raise', what) or ('ok', [subscriptions whose handler was invoked, in order])."""
    from ..core.tiny import Tiny, Sym
    env = {"msg.subscription": 55, "self._subscriptions": table, "self": Sym("session"), "msg.args": None, "msg.kwargs": None, "msg.publication": 1,
           "msg.topic": None, "msg.enc_algo": None, "msg.x_acknowledged_delivery": None}
    for nm in ("publisher", "publisher_authid", "publisher_authrole", "transaction_hash", "retained", "forward_for", "payload", "enc_serializer", "enc_key"):
        env[f"msg.{nm}"] = None
    fns = []

    def default(fname, a_, k_=None):
        if fname == "txaio.as_future":
            fns.append(a_[0])
        return Sym(f"<{fname}>")
    r = Tiny(env, default_call=default).run(ev_body)
    if r[0] == "raise":
        return "raise", r[1]
    visited = []
    for f in fns:
        for lst in table.values():
            for s_ in lst:
                h = s_.attrs.get("handler")
                if isinstance(h, Sym) and h.attrs.get("fn") is f:
                    visited.append(s_)
    return "ok", visited


def rule_lists(ctx):
    """The subscription table {id: [handler subscriptions]} is maintained so that every EVENT sees exactly the handlers attached at
    that moment. Decided by cell-wise abstract evaluation of the four code pieces on a data-independent small model of the table
    (id absent / empty list / one / several handlers, target first / middle / last): spelling (setdefault, pop, get, del, renamed
    locals, swapped branches) is irrelevant, only the resulting table counts."""
    from ..core.tiny import Tiny, Sym
    ctx.rule("C11.4-handler-list-maintenance")
    om = get_onmessage(ctx)
    an = om.an
    problems = {"sub": [], "unsub": [], "unsubd": [], "event": []}
    from .common import inline_private
    inl = inline_private(ctx, ctx.program.cls(APPSESSION))  # private helpers are evaluated in place

    def subs(n, sid=55):
        return [Sym(f"s{i}", id=sid, active=True, topic="com.topic", handler=Sym(f"h{i}", fn=Sym(f"fn{sid}_{i}"), obj=None, details_arg=None)) for i in range(n)]
    try:
        # --- SUBSCRIBED
        body = _arm_body(om, "Subscribed")
        for shape in ("absent", 0, 1, 3):
            other = subs(1, 99)
            old = [] if shape == "absent" else subs(shape)
            table = {99: other}
            if shape != "absent":
                table[55] = old
            before = list(old)
            req = Sym("subscribe-request", on_reply=Sym("future"), topic="com.topic", handler=Sym("H"))
            sends = []
            t = Tiny({"msg.request": 7, "msg.subscription": 55, "self._subscribe_reqs": {7: req}, "self._subscriptions": table, "self": Sym("session")},
                     default_call=_mk_calls(sends), inline_self=inl)
            r = t.run(body)
            now = table.get(55)
            ok = r[0] in ("fall", "return") and isinstance(now, list) and len(now) == len(before) + 1 and all(a is b for a, b in zip(now, before)) and \
                isinstance(now[-1], Sym) and now[-1].attrs.get("handler") is req.attrs["handler"] and now[-1].attrs.get("id") == 55 and table.get(99) is other and len(other) == 1 \
                and 7 not in t.env["self._subscribe_reqs"]
            if not ok:
                problems["sub"].append(f"table had id 55 {shape if shape == 'absent' else 'with %d handler(s)' % shape}: afterwards {now} ({r[0]})")
        ctx.ob("SUBSCRIBED: the new handler is appended at the end of the id's handler list, existing handlers and other ids untouched, request retired [4 table shapes]",
               not problems["sub"], "; ".join(problems["sub"][:2]), om.fn.loc())
        # --- _unsubscribe + racing EVENT lookup
        fn = ctx.program.func(f"{APPSESSION}._unsubscribe")
        ctx.analysed(fn)
        ev_body = _arm_body(om, "Event")
        lookup = ev_body[0]
        body_u = [x for x in fn.node.body if not (isinstance(x, ast.Expr) and isinstance(x.value, ast.Constant))]
        for n, pos in ((1, 0), (2, 0), (2, 1), (3, 1)):
            lst = subs(n)
            target = lst[pos]
            other = subs(1, 99)
            table = {55: lst, 99: other}
            before = list(lst)
            sends = []
            t = Tiny({fn.params()[1]: target, "self._subscriptions": table, "self._transport": Sym("transport"), "self._unsubscribe_reqs": {}, "self": Sym("session")},
                     default_call=_mk_calls(sends), inline_self=inl)
            r = t.run(body_u)
            now = table.get(55)
            want = [x for x in before if x is not target]
            ok = r[0] == "return" and (now is None and not want or isinstance(now, list) and len(now) == len(want) and all(a is b for a, b in zip(now, want))) and \
                target.attrs.get("active") is False and all(x.attrs.get("active") is True for x in want) and (len(sends) == 1) == (not want) and len(other) == 1
            if not ok:
                problems["unsub"].append(f"{n} handler(s), unsubscribing #{pos}: table id 55 -> {now}, target active={target.attrs.get('active')}, UNSUBSCRIBE sent {len(sends)}x ({r[0]})")
            # an EVENT that races with the (not yet answered) unsubscribe must be dropped silently / reach exactly the remaining handlers
            kind, visited = _event_visit(ev_body, table)
            found = kind == "ok"
            if not found:
                problems["event"].append(f"after unsubscribing #{pos} of {n} (no UNSUBSCRIBED yet) an EVENT for the id is a ProtocolError instead of "
                                         f"{'being dropped' if not want else 'reaching the remaining handlers'}")
            elif not (isinstance(visited, list) and len(visited) == len(want) and all(a is b for a, b in zip(visited, want))):
                problems["event"].append(f"after unsubscribing #{pos} of {n} an EVENT visits {visited}, expected {want}")
        ctx.ob("_unsubscribe: exactly the given handler leaves the list and is deactivated; UNSUBSCRIBE goes out iff none is left [4 shapes]",
               not problems["unsub"], "; ".join(problems["unsub"][:2]), fn.loc())
        # --- EVENT lookup on plain tables
        for shape in ("absent", 0, 2):
            table = {99: subs(1, 99)}
            lst = None
            if shape != "absent":
                lst = subs(shape)
                table[55] = lst
            kind, visited = _event_visit(ev_body, table)
            found = kind == "ok"
            if found != (shape != "absent"):
                problems["event"].append(f"id {'never held' if shape == 'absent' else 'held with %d handlers' % shape}: lookup says {'known' if found else 'unknown (ProtocolError)'}")
            elif found:
                if not (isinstance(visited, list) and len(visited) == len(lst) and all(a is b for a, b in zip(visited, lst))):
                    problems["event"].append(f"EVENT visits {visited}, expected the id's handler list in subscription order")
        ctx.ob("EVENT: unknown id -> ProtocolError; a held id (even with no handler left) -> exactly its current handlers in order, silently none when empty",
               not problems["event"], "; ".join(problems["event"][:2]), om.fn.loc(lookup))
        # --- UNSUBSCRIBED
        body = _arm_body(om, "Unsubscribed")
        for shape in ("absent", 0, 2):
            other = subs(1, 99)
            table = {99: other}
            lst = []
            if shape != "absent":
                lst = subs(shape)
                table[55] = lst
            held = list(lst)
            req = Sym("unsubscribe-request", on_reply=Sym("future"), subscription_id=55)
            t = Tiny({"msg.request": 9, "self._unsubscribe_reqs": {9: req}, "self._subscriptions": table, "self": Sym("session")}, default_call=_mk_calls([]), inline_self=inl)
            r = t.run(body)
            ok = r[0] in ("fall", "return") and 55 not in table and all(x.attrs.get("active") is False for x in held) and table.get(99) is other and other[0].attrs.get("active") is True \
                and 9 not in t.env["self._unsubscribe_reqs"]
            if not ok:
                problems["unsubd"].append(f"id 55 {shape if shape == 'absent' else 'with %d handler(s)' % shape}: table afterwards {table} ({r})")
        ctx.ob("UNSUBSCRIBED: the id is forgotten, handlers still listed are deactivated, other ids untouched, request retired [3 shapes]",
               not problems["unsubd"], "; ".join(problems["unsubd"][:2]), om.fn.loc())
    except AnalysisError as e:
        raise AnalysisError(f"[C11.4-handler-list-maintenance] table maintenance code outside the modelled subset: {e}")
    # Subscription.unsubscribe delegates
    sc = ctx.program.cls("autobahn.wamp.request.Subscription")
    un = sc.methods.get("unsubscribe")
    ctx.require(un is not None, "Subscription.unsubscribe missing")
    g3, mf3, res3 = an.get(un)
    de = [(n, c) for n in g3.stmt_nodes() for c in node_calls(n) if norm.text(c.func) == "self.session._unsubscribe"]
    ok = len(de) == 1 and ("truth", "self.active", None, True) in mf3.at(de[0][0])
    ctx.ob("Subscription.unsubscribe: only an active subscription is unsubscribed", ok, "active check changed", un.loc())


def rule_type_check(ctx):
    """subscribe(..., check_types=True) wraps the handler: the wrapper must hand the handler exactly what it was called with."""
    ctx.rule("C11.6-type-check-wrapper-forwards-arguments")
    fn = ctx.program.func(f"{APPSESSION}.type_check")
    ctx.analysed(fn)
    clo = fn.nested_list()
    ctx.require(len(clo) == 1, "type_check: wrapper closure not found")
    w = clo[0]
    va, ka = w.node.args.vararg, w.node.args.kwarg
    ctx.ob("wrapper accepts any positional and keyword arguments", va is not None and ka is not None and not w.node.args.args, "wrapper signature changed", w.loc())
    rets = [s_ for s_ in walk_no_defs(w.node) if isinstance(s_, ast.Return) and s_.value is not None]
    ctx.require(len(rets) == 1, "type_check wrapper: single return expected")
    v = rets[0].value
    if isinstance(v, ast.Await):
        v = v.value
    wrapped = fn.params()[1]
    ok = False
    if isinstance(v, ast.Call) and va is not None and ka is not None:
        pos = list(v.args)
        if call_name(v) == "txaio.as_future" and pos and norm.text(pos[0]) == wrapped:
            pos = pos[1:]
            callee_ok = True
        else:
            callee_ok = norm.text(v.func) == wrapped
        ok = callee_ok and len(pos) == 1 and isinstance(pos[0], ast.Starred) and norm.text(pos[0].value) == va.arg and \
            len(v.keywords) == 1 and v.keywords[0].arg is None and norm.text(v.keywords[0].value) == ka.arg
    ctx.ob("the wrapped handler is called with the wrapper's own (*args, **kwargs), unchanged", ok,
           f"forwards `{ast.unparse(rets[0].value)[:80]}`: handlers with *args/**kwargs/positional-only parameters get re-packed arguments (or TypeError) instead of the published payload",
           w.loc(rets[0]))
    # an ill-typed payload is refused before the handler runs
    raises = [s_ for s_ in walk_no_defs(w.node) if isinstance(s_, ast.Raise)]
    ctx.ob("ill-typed payloads raise TypeCheckError before the handler is called", any("TypeCheckError" in ast.unparse(r) for r in raises) and
           all(r.lineno < rets[0].lineno for r in raises), "type check no longer precedes the call", w.loc())


def rule_unknown(ctx):
    ctx.rule("C11.5-unknown-subscription")
    # decided together with the table model in rule_lists (EVENT lookup obligations); kept as the anchor for the rule id
    ctx.ob("EVENT lookup decided on the table model (see C11.4)", True)


def run(ctx):
    rule_no_shared_mutation(ctx)
    rule_isolation(ctx)
    rule_reentrant_unsubscribe(ctx)
    rule_arguments(ctx)
    rule_lists(ctx)
    rule_unknown(ctx)
    rule_type_check(ctx)
    from .common import rule_decorated_object
    rule_decorated_object(ctx, "C11.7-decorated-object-handlers", "subscribe", "_subscribe", "is_handler", True)
