"""C02 - Incoming byte streams are judged exactly as RFC 6455 prescribes.

C02.1 extracts the complete decision table of processData()'s header cascade (2^16 header values x 64 receiver
contexts) with the vectorised abstract interpreter and compares it cell by cell with a table written from the RFC.
The other rules are guard/flow rules over the close-payload, UTF-8 and failure-policy code.
"""
import ast
import re
import struct

import numpy as np

from ..core.index import AnalysisError, walk_no_defs, calls_in, call_name, kwarg
from ..core.cfg import CFG, node_calls
from ..core import norm
from ..core.vec import Vec, Opaque, OptVec, SliceVal
from ..spec import rfc6455
from .common import (WSP, get_analysis, is_self_attr, self_call, stmt_key, find_assign_nodes, compile_predicate)

META = {
    "explanation": "Decision-table extraction: processData()'s header-validation cascade is abstractly interpreted over the "
                   "full finite domain (65536 header-octet pairs x 64 receiver contexts = 4 194 304 cells, plus boundary "
                   "classes of the extended length) and compared with an RFC 6455 reference table; close-code predicate "
                   "compared by extension over 0..65535; guard/flow rules for UTF-8 fail-fast, failure policy (1002/1007, "
                   "drop vs close), pong echo and the delivery gate. The interpreter reads the AST only; nothing is imported.",
    "exhaustive": True,
    "trusted": ["numpy (vector arithmetic)", "sa/spec/rfc6455.py reference table"],
    "assumptions": ["branches under websocket_version == 0 (Hixie-76) are unreachable: both handshakes refuse that version",
                    "verdict independence from read boundaries is not decided (runtime segmentation); structural part in C01",
                    "extended payload lengths are covered by equivalence classes: the cascade compares them with constants only "
                    "(verified), so constants +-1 and the extremes are exhaustive up to equivalence"],
}

CTX_BITS = ["isServer", "requireMasked", "acceptMasked", "pmce", "inside", "failByDrop"]


class Domain:
    def __init__(self, sel=None):
        n_ctx = 1 << len(CTX_BITS)
        idx = np.arange(n_ctx * 65536, dtype=np.int64)
        if sel is not None:
            idx = idx[sel(idx)]
        self.idx = idx
        self.n = len(idx)
        hdr = idx & 0xFFFF
        self.b0 = hdr >> 8
        self.b1 = hdr & 0xFF
        c = idx >> 16
        self.ctx = {name: ((c >> i) & 1).astype(bool) for i, name in enumerate(CTX_BITS)}

    def describe(self, k):
        return {"b0": int(self.b0[k]), "b1": int(self.b1[k]), **{n: bool(v[k]) for n, v in self.ctx.items()}}


class HeaderRun:
    """One vectorised interpretation of processData() with current_frame None."""

    def __init__(self, ctx, fn, dom, ext16, ext64, buffered):
        self.ctx, self.fn, self.dom = ctx, fn, dom
        self.ext = {"!H": ext16, "!Q": ext64}
        self.buffered = buffered
        self.violations = np.zeros(dom.n, dtype=bool)
        self.first_reason = {}
        self.accept = np.zeros(dom.n, dtype=bool)
        self.frame_args = None
        self.consumed = None
        self.consumed_mask = np.zeros(dom.n, dtype=bool)
        self.begin = np.zeros(dom.n, dtype=bool)
        self.unpacks = []
        res = norm.Resolver(ctx.program, fn.module, fn.cls)
        self.vec = Vec(dom.n, res, self.attr, self.call, self.store)

    def attr(self, text, node, mask):
        d = self.dom
        table = {
            "self.current_frame": None,
            "self.factory.isServer": d.ctx["isServer"],
            "self.requireMaskedClientFrames": d.ctx["requireMasked"],
            "self.acceptMaskedServerFrames": d.ctx["acceptMasked"],
            "self.inside_message": d.ctx["inside"],
            "self.applyMask": True,
            "self.data[0]": d.b0,
            "self.data[1]": d.b1,
        }
        if text in table:
            return table[text]
        if text == "self._perMessageCompress":
            return OptVec(d.ctx["pmce"], "pmce")
        if text == "self._perMessageCompress.EXTENSION_NAME":
            return Opaque("name")
        if text == "self.data":
            return Opaque("buffer")
        if isinstance(node, ast.Subscript) and norm.text(node.value) == "self.data" and isinstance(node.slice, ast.Slice):
            lo = self.vec.eval(node.slice.lower, mask) if node.slice.lower is not None else None
            hi = self.vec.eval(node.slice.upper, mask) if node.slice.upper is not None else None
            return SliceVal("self.data", lo, hi)
        return NotImplemented

    def call(self, call, mask, vec):
        name = call_name(call) or ""
        if name == "len" and len(call.args) == 1 and norm.text(call.args[0]) == "self.data":
            return self.buffered
        if name == "self._protocol_violation":
            new = mask & ~self.violations
            reason = ast.unparse(call.args[0])[:60] if call.args else "?"
            if new.any():
                self.first_reason.setdefault(reason, np.zeros(self.dom.n, dtype=bool))
                self.first_reason[reason] |= new
            self.violations |= mask
            return self.dom.ctx["failByDrop"]
        if name == "struct.unpack":
            fmt = call.args[0].value if isinstance(call.args[0], ast.Constant) else None
            sl = vec.eval(call.args[1], mask)
            self.unpacks.append((fmt, sl, mask.copy(), dict(vec.env)))
            if fmt not in self.ext:
                raise AnalysisError(f"unexpected unpack format {fmt!r} in the header cascade")
            return [self.ext[fmt]]
        if name in ("create_xor_masker", "XorMaskerNull"):
            return Opaque(name)
        if name == "FrameHeader":
            return ("FrameHeader", [vec.eval(a, mask) for a in call.args])
        if name == "self.onFrameBegin":
            self.begin |= mask
            return None
        if name.startswith("self.log."):
            return Opaque("log")
        return NotImplemented

    def store(self, text, value, mask, vec):
        if text == "self.current_frame":
            if not (isinstance(value, tuple) and value[0] == "FrameHeader"):
                raise AnalysisError("self.current_frame assigned something that is not FrameHeader(...) in the header branch")
            self.accept |= mask
            self.frame_args = (value[1], mask.copy())
            return
        if text == "self.data":
            if not (isinstance(value, SliceVal) and value.upper is None):
                raise AnalysisError("self.data reassigned to something that is not self.data[i:] in the header branch")
            self.consumed = vec.arr(value.lower)
            self.consumed_mask |= mask
            return
        if text == "self.current_frame_masker":
            return
        raise AnalysisError(f"unexpected store to {text} in the header branch of processData")

    def run(self):
        self.vec.run(self.fn.node.body)
        return self


def _fold_int(e):
    """integer value of a constant expression (literals combined with + - * ** << >> | &), else None"""
    if isinstance(e, ast.Constant) and isinstance(e.value, int) and not isinstance(e.value, bool):
        return e.value
    if isinstance(e, ast.UnaryOp) and isinstance(e.op, ast.USub):
        v = _fold_int(e.operand)
        return -v if v is not None else None
    if isinstance(e, ast.BinOp):
        l, r = _fold_int(e.left), _fold_int(e.right)
        if l is None or r is None:
            return None
        try:
            if isinstance(e.op, ast.Add):
                return l + r
            if isinstance(e.op, ast.Sub):
                return l - r
            if isinstance(e.op, ast.Mult):
                return l * r
            if isinstance(e.op, ast.Pow) and 0 <= r <= 128:
                return l ** r
            if isinstance(e.op, ast.LShift) and 0 <= r <= 128:
                return l << r
            if isinstance(e.op, ast.RShift) and r >= 0:
                return l >> r
            if isinstance(e.op, ast.BitOr):
                return l | r
            if isinstance(e.op, ast.BitAnd):
                return l & r
        except (OverflowError, ValueError):
            return None
    return None


def _ext_compare_constants(fn):
    """Every integer constant (folded) that occurs in a comparison of the function: the boundaries at which its judgement of a length can
    change.  A superset is harmless (more boundary classes are compared with the RFC), so no variable name is involved."""
    consts = {126, 65536, 2 ** 63}
    for n in walk_no_defs(fn.node):
        if isinstance(n, ast.Compare):
            for t in [n.left] + list(n.comparators):
                v = _fold_int(t)
                if v is not None and 0 <= v <= 2 ** 64:
                    consts.add(v)
    return consts


def rule_header_cascade(ctx):
    ctx.rule("C02.1-header-decision-table")
    fn = ctx.program.func(f"{WSP}.processData")
    ctx.analysed(fn)
    quick = ctx.tier == "quick"
    dom = Domain()
    big = 10 ** 9
    runA = HeaderRun(ctx, fn, dom, ext16=200, ext64=70000, buffered=big).run()
    ref = rfc6455.header_violation_reference(dom.b0, dom.b1, dom.ctx["isServer"], dom.ctx["requireMasked"],
                                             dom.ctx["acceptMasked"], dom.ctx["pmce"], dom.ctx["inside"])
    cells = int(dom.n)
    ctx.per_rule[ctx.cur_rule]["cells"] = cells
    diff = runA.violations != ref
    if diff.any():
        k = int(np.argmax(diff))
        d = dom.describe(k)
        kind = "accepted although RFC 6455 requires failing the connection" if ref[k] else "rejected although RFC 6455 allows it"
        # group the differences by decoded header field pattern to name the construct
        fields = f"opcode={d['b0'] & 15} fin={d['b0'] >> 7} rsv={(d['b0'] >> 4) & 7} masked={d['b1'] >> 7} len7={d['b1'] & 127}"
        ctx.ob("processData header cascade == RFC table", False,
               f"{int(diff.sum())} of {cells} cells differ; first: {fields} ctx={ {k2: v for k2, v in d.items() if k2 not in ('b0', 'b1')} }: {kind}",
               fn.loc())
    else:
        ctx.ob("processData header cascade == RFC table", True)
    ctx.per_rule[ctx.cur_rule]["violating_cells_in_reference"] = int(ref.sum())
    # fail-by-drop: stop at once, nothing consumed/accepted after a violation
    fbd = dom.ctx["failByDrop"] & runA.violations
    leak = fbd & (runA.accept | runA.consumed_mask | runA.begin)
    ctx.ob("failByDrop: no processing after a violation", not leak.any(),
           f"{int(leak.sum())} cells: header accepted / buffer consumed / onFrameBegin fired after a violation with failByDrop"
           + (f", e.g. {dom.describe(int(np.argmax(leak)))}" if leak.any() else ""), fn.loc())
    false_ret = runA.vec.retval.get("False", np.zeros(dom.n, dtype=bool))
    ctx.ob("failByDrop: violation returns False", not (fbd & ~false_ret).any(),
           "a violating header under failByDrop does not make processData return False", fn.loc())
    # every conforming header is accepted with the right fields and header length
    good = ~ref
    ctx.ob("conforming headers accepted", not (good & ~runA.accept).any() and not runA.vec.raised.any(),
           f"{int((good & ~runA.accept).sum())} conforming cells not accepted / {int(runA.vec.raised.sum())} cells raise", fn.loc())
    args, amask = runA.frame_args
    ctx.require(len(args) == 5, "FrameHeader(...) no longer takes 5 positional arguments")
    fin = (dom.b0 & 0x80) != 0
    rsv = (dom.b0 >> 4) & 7
    opc = dom.b0 & 15
    masked = (dom.b1 & 0x80) != 0
    len1 = dom.b1 & 127
    explen = np.where(len1 < 126, len1, np.where(len1 == 126, 200, 70000))
    v = runA.vec
    chk = [("opcode", v.arr(args[0]).astype(np.int64), opc), ("fin", v.truth(args[1]).astype(np.int64), fin.astype(np.int64)),
           ("rsv", v.arr(args[2]).astype(np.int64), rsv), ("length", v.arr(args[3]).astype(np.int64), explen)]
    for name, got, exp in chk:
        bad = amask & (got != exp)
        ctx.ob(f"FrameHeader.{name} carved from the right bits", not bad.any(),
               f"{int(bad.sum())} cells: FrameHeader {name} differs from the RFC bit layout, e.g. {dom.describe(int(np.argmax(bad)))}", fn.loc())
    exphdr = 2 + np.where(len1 == 126, 2, np.where(len1 == 127, 8, 0)) + np.where(masked, 4, 0)
    bad = runA.consumed_mask & (runA.consumed != exphdr)
    ctx.ob("header octets consumed == RFC header length", not bad.any(),
           f"{int(bad.sum())} cells: consumed header length differs (first {dom.describe(int(np.argmax(bad)))} "
           f"got {int(runA.consumed[int(np.argmax(bad))]) if bad.any() else ''})", fn.loc())
    # the computed header length is the local that the header branch compares with the number of buffered octets (whatever it is called)
    from .common import local_canon, canon_text
    lc = local_canon(fn)
    hl_names = set()
    hdr_top = [s_ for s_ in fn.node.body if isinstance(s_, ast.If) and norm.text(s_.test) == "self.current_frame is None"]
    ctx.require(len(hdr_top) == 1, "processData: `if self.current_frame is None` split not found")
    for cmp_ in (x_ for st_ in hdr_top[0].body for x_ in [st_] + list(walk_no_defs(st_))):
        if isinstance(cmp_, ast.Compare) and len(cmp_.ops) == 1 and isinstance(cmp_.ops[0], (ast.GtE, ast.LtE, ast.Lt, ast.Gt)):
            a_, b_ = cmp_.left, cmp_.comparators[0]
            for x_, y_ in ((a_, b_), (b_, a_)):
                if canon_text(fn, x_, lc) == "len(self.data)" and isinstance(y_, ast.Name):
                    hl_names.add(y_.id)
    ctx.require(len(hl_names) == 1, f"header-length local not identified (compared with len(self.data): {sorted(hl_names)})")
    hl = runA.vec.env.get(next(iter(hl_names)))
    ctx.require(isinstance(hl, np.ndarray), "frame_header_len no longer computed in the header branch")
    reached = runA.consumed_mask
    bad = reached & (hl != exphdr)
    ctx.ob("frame_header_len == RFC header length", not bad.any(), f"{int(bad.sum())} cells differ", fn.loc())
    # unpack widths
    for fmt, sl, m, env in runA.unpacks:
        w = struct.calcsize(fmt)
        ok = isinstance(sl, SliceVal) and sl.lower is not None and sl.upper is not None and \
            bool(((runA.vec.arr(sl.upper) - runA.vec.arr(sl.lower))[m] == w).all()) and bool((runA.vec.arr(sl.lower)[m] == 2).all())
        ctx.ob(f"unpack {fmt} reads {w} octets at offset 2", ok, f"extended length slice width/offset does not match struct format {fmt}", fn.loc())
    ctx.require(len(runA.unpacks) >= 2, "extended length unpack sites not found")

    # ---- run B: extended-length classes ------------------------------------------------
    consts = _ext_compare_constants(fn)
    s16 = sorted({0, 65535} | {c + d for c in consts for d in (-1, 0, 1) if 0 <= c + d <= 65535})
    s64 = sorted({0, 2 ** 64 - 1} | {c + d for c in consts for d in (-1, 0, 1) if 0 <= c + d <= 2 ** 64 - 1})
    if quick:
        sel = lambda idx: (((idx & 0x7F) >= 126) & ((idx >> 16) == 0b010000 | 0))  # one quiet context (client, inside=0..)
    else:
        sel = lambda idx: ((idx & 0x7F) >= 126)
    domB = Domain(lambda idx: ((idx & 0x7F) >= 126) & (((idx >> 16) & 0b011111) == 0) if quick else ((idx & 0x7F) >= 126))
    refB = rfc6455.header_violation_reference(domB.b0, domB.b1, domB.ctx["isServer"], domB.ctx["requireMasked"],
                                              domB.ctx["acceptMasked"], domB.ctx["pmce"], domB.ctx["inside"])
    len1B = domB.b1 & 127
    nB = 0
    for e16 in s16:
        r = HeaderRun(ctx, fn, domB, ext16=e16, ext64=70000, buffered=big).run()
        exp = refB | ((len1B == 126) & (e16 < 126))
        nB += 1
        bad = r.violations != exp
        ctx.ob(f"16-bit extended length {e16}: minimal-encoding verdict", not bad.any(),
               f"extended length {e16} in the 126 form judged differently from RFC 6455 5.2 ({int(bad.sum())} cells)", fn.loc())
    for e64 in s64:
        r = HeaderRun(ctx, fn, domB, ext16=200, ext64=np.full(domB.n, e64, dtype=object), buffered=big).run()
        exp = refB | ((len1B == 127) & ((e64 < 65536) | (e64 > 0x7FFFFFFFFFFFFFFF)))
        nB += 1
        bad = r.violations != exp
        ctx.ob(f"64-bit extended length {e64}: minimal-encoding / 2^63 verdict", not bad.any(),
               f"extended length {e64} in the 127 form judged differently from RFC 6455 5.2 ({int(bad.sum())} cells)", fn.loc())
    ctx.per_rule[ctx.cur_rule]["ext_classes"] = nB

    # ---- run C: incomplete header never accepted ----------------------------------------
    for short in (0, 1):
        r = HeaderRun(ctx, fn, dom if not quick else domB, ext16=200, ext64=70000, buffered=short).run()
        ctx.ob(f"buffer of {short} octets: need more data", not (r.accept.any() or r.violations.any() or r.consumed_mask.any()),
               "processData judges or consumes a header before two octets are buffered", fn.loc())
    d2 = dom if not quick else domB
    l1 = d2.b1 & 127
    hdr = 2 + np.where(l1 == 126, 2, np.where(l1 == 127, 8, 0)) + np.where((d2.b1 & 0x80) != 0, 4, 0)
    r = HeaderRun(ctx, fn, d2, ext16=200, ext64=70000, buffered=hdr - 1).run()
    part = hdr - 1 >= 2
    ctx.ob("incomplete extended header: nothing consumed", not ((r.accept | r.consumed_mask) & part).any(),
           "a header whose extended length / mask is not yet buffered is consumed or accepted", fn.loc())


def close_code_cells(ctx):
    """(domain, remembered): the status codes around every integer literal onCloseFrame (and the helpers it calls) compares the code with, and
    a function code -> what onCloseFrame remembers as the peer's close code once its validation prefix is through (abstract evaluation,
    sa.core.tiny; the failure sinks answer "closing handshake started", i.e. processing continues)."""
    from ..core.tiny import Tiny, Sym
    from .common import inline_private
    wsp = ctx.program.cls(WSP)
    ocf = wsp.methods["onCloseFrame"]
    allowed = ctx.program.class_const(wsp, "CLOSE_STATUS_CODES_ALLOWED")
    inl = inline_private(ctx, wsp, exclude=("_protocol_violation", "_invalid_payload", "_fail_connection", "sendCloseFrame", "dropConnection", "_max_message_size_exceeded",
                                            "onCloseFrame", "_connectionLost"))
    body0 = [x for x in ocf.node.body if not (isinstance(x, ast.Expr) and isinstance(x.value, ast.Constant))]
    lits = set(allowed) | {0, 999, 1000, 1004, 1005, 1006, 1011, 1015, 1016, 2999, 3000, 3999, 4000, 4999, 5000, 65535}
    srcs = [ocf.node] + [f_.node for nm_ in {c_.func.attr for c_ in ast.walk(ocf.node) if isinstance(c_, ast.Call) and isinstance(c_.func, ast.Attribute)}
                         for f_ in [ctx.program.lookup_method(wsp, nm_)] if f_ is not None and inl(nm_) is not None]
    for sn in srcs:
        lits |= {x.value for x in ast.walk(sn) if isinstance(x, ast.Constant) and isinstance(x.value, int) and not isinstance(x.value, bool) and 0 <= x.value <= 65535}
    domain = sorted({c_ for l_ in lits for c_ in (l_ - 1, l_, l_ + 1) if 0 <= c_ <= 65535})

    def remembered(code):
        env = {"self": Sym("protocol"), ocf.params()[1]: code, ocf.params()[2]: None, "WebSocketProtocol.CLOSE_STATUS_CODES_ALLOWED": list(allowed),
               "WebSocketProtocol.CLOSE_STATUS_CODE_NORMAL": ctx.program.class_const(wsp, "CLOSE_STATUS_CODE_NORMAL"), "self.CLOSE_STATUS_CODES_ALLOWED": list(allowed),
               "self.remoteCloseCode": None, "self.remoteCloseReason": None}
        t = Tiny(env, default_call=lambda f_, a_, k_=None: False if f_ in ("self._protocol_violation", "self._invalid_payload") else Sym(f"<{f_}>"), inline_self=inl)
        r_ = t.run(body0, stop=lambda st: any(isinstance(x, ast.Attribute) and norm.text(x) == "self.state" for x in ast.walk(st)))
        if r_[0] != "stop":
            return ("ended", r_)
        return t.env.get("self.remoteCloseCode", t.env["self"].attrs.get("remoteCloseCode"))
    return domain, remembered


def rule_frame_end(ctx, rule_id="C02.8-message-ends-at-final-data-frame"):
    """"delivers exactly the messages RFC 6455 assigns": the fragmentation state may only change at data frames.  onFrameEnd is evaluated
    cell-wise (sa.core.tiny) over (control / data frame, FIN, text validation state, what the invalid-payload sink answers): a control
    frame between two fragments leaves the message open; a data frame ends the message exactly when it carries FIN."""
    from ..core.tiny import Tiny, Sym
    from .common import inline_private
    import itertools
    ctx.rule(rule_id)
    wsp = ctx.program.cls(WSP)
    fn = wsp.methods["onFrameEnd"]
    ctx.analysed(fn)
    S_OPEN = ctx.program.class_const(wsp, "STATE_OPEN")
    inl = inline_private(ctx, wsp, exclude=("_onMessageFrameEnd", "_onMessageEnd", "_invalid_payload", "_protocol_violation", "_cancelAutoPingTimeoutCall", "_fail_connection",
                                            "_onMessageFrameData", "_onMessageBegin", "_onMessageFrameBegin", "_max_message_size_exceeded"))
    body = [x for x in fn.node.body if not (isinstance(x, ast.Expr) and isinstance(x.value, ast.Constant))]
    probs, n = [], 0
    try:
        for opcode, fin, inside, utf8_open, sink in itertools.product((0, 1, 2, 8, 9, 10), (True, False), (True, False), (True, False), (True, False)):
            control = opcode > 7
            if control and not fin:
                continue  # refused at the header
            if not control and not inside:
                continue  # a data frame is always inside a message once its header was accepted
            if utf8_open and (control or not fin):
                continue
            if sink and not utf8_open:
                continue
            calls = []

            def oracle(f_, a_, k_=None):
                if f_ in ("self.processControlFrame", "self._onMessageFrameEnd", "self._onMessageEnd"):
                    calls.append(f_[5:])
                    return None
                if f_ == "self._invalid_payload":
                    calls.append("_invalid_payload")
                    return sink
                return Sym(f"<{f_}>")
            frame = Sym("frame", opcode=opcode, fin=fin, rsv=0, length=3)
            env = {"self": Sym("protocol"), "self.current_frame": frame, "self.inside_message": inside, "self.state": S_OPEN, "WebSocketProtocol.STATE_OPEN": S_OPEN,
                   "self.logFrames": False, "self.trafficStats": Sym("stats", incomingWebSocketFrames=0, incomingWebSocketMessages=0), "self.autoPingTimeoutCall": None,
                   "self.autoPingRestartOnAnyTraffic": True, "self._isMessageCompressed": False, "self.utf8validateIncomingCurrentMessage": utf8_open or (opcode == 1 and fin),
                   "self.utf8validateLast": [True, not utf8_open, 0, 0], "self.control_frame_data": [], "self.frame_data": [], "self.log": Sym("log"),
                   "self._perMessageCompress": None}
            t = Tiny(env, default_call=oracle, inline_self=inl, opaque_globals=True)
            r = t.run(body)
            n += 1
            tag = f"{'control' if control else 'data'} frame (opcode {opcode}), FIN={fin}, message open before={inside}" + (", text ends inside a code point" if utf8_open else "")
            if r[0] == "raise":
                probs.append(f"{tag}: raises {r[1]}")
                continue
            after = t.env.get("self.inside_message", t.env["self"].attrs.get("inside_message"))
            failed = utf8_open and sink
            if control:
                if after != inside:
                    probs.append(f"{tag}: message open afterwards={after} -- a control frame between fragments must not touch the fragmentation state")
                if calls != ["processControlFrame"]:
                    probs.append(f"{tag}: calls {calls}, expected the control frame to be processed and nothing else")
            else:
                want_calls = ["_onMessageFrameEnd"] + (["_invalid_payload"] if utf8_open else []) + (["_onMessageEnd"] if fin and not failed else [])
                if calls != want_calls:
                    probs.append(f"{tag}: calls {calls}, expected {want_calls}")
                if not failed and after != (not fin):
                    probs.append(f"{tag}: message open afterwards={after}, expected {not fin}")
            if failed:
                if not (r[0] == "return" and r[1] is False):
                    probs.append(f"{tag}: the connection was dropped but processing continues ({r[0]} {r[1]})")
            elif t.env.get("self.current_frame", 0) is not None:
                probs.append(f"{tag}: the finished frame stays current")
    except AnalysisError as e:
        raise AnalysisError(f"[{rule_id}] onFrameEnd outside the modelled subset: {e}")
    ctx.ob(f"onFrameEnd: a message ends exactly at its final data frame; control frames leave the fragmentation state alone [{n} cells]", not probs, "; ".join(probs[:3]), fn.loc())
    ctx.require(n >= 15, f"only {n} cells")


def rule_close_payload(ctx, rule_id="C02.2-close-payload"):
    ctx.rule(rule_id)
    an = get_analysis(ctx)
    wsp = ctx.program.cls(WSP)
    allowed = ctx.program.class_const(wsp, "CLOSE_STATUS_CODES_ALLOWED")
    ctx.require(isinstance(allowed, list), "CLOSE_STATUS_CODES_ALLOWED is not a list literal")
    aset = set(allowed)
    ctx.ob("CLOSE_STATUS_CODES_ALLOWED includes the RFC 6455 codes", rfc6455.CLOSE_CODES_MUST_ACCEPT <= aset,
           f"missing {sorted(rfc6455.CLOSE_CODES_MUST_ACCEPT - aset)}", wsp.loc())
    ctx.ob("CLOSE_STATUS_CODES_ALLOWED excludes codes that must never be on the wire",
           not (aset & rfc6455.CLOSE_CODES_NEVER_ON_WIRE), f"contains {sorted(aset & rfc6455.CLOSE_CODES_NEVER_ON_WIRE)}", wsp.loc())
    ctx.ob("CLOSE_STATUS_CODES_ALLOWED within 1000..1015 assigned codes",
           aset <= (rfc6455.CLOSE_CODES_MUST_ACCEPT | rfc6455.CLOSE_CODES_OPTIONAL) - {1014},
           f"unexpected {sorted(aset - rfc6455.CLOSE_CODES_MUST_ACCEPT - rfc6455.CLOSE_CODES_OPTIONAL)}", wsp.loc())
    ocf = wsp.methods.get("onCloseFrame")
    ctx.require(ocf is not None, "onCloseFrame missing")
    ctx.analysed(ocf)
    g, mf, res = an.get(ocf)
    # the test whose true branch calls _protocol_violation
    tests = []
    for n in g.stmt_nodes():
        if n.kind == "test" and ocf.params()[1] in norm.mentions_of(n.ast) and not any(isinstance(c, ast.Call) for c in ast.walk(n.ast)):
            tb = [m for m, lab in n.succ if lab and lab[0] == "T"]
            if any(any(self_call(c, "_protocol_violation") for c in node_calls(m)) for m in tb):
                tests.append(n)
    from ..core.tiny import Tiny, Sym, Buf, TinyRaise
    from .common import inline_private
    inl = inline_private(ctx, wsp, exclude=("_protocol_violation", "_invalid_payload", "_fail_connection", "sendCloseFrame", "dropConnection", "_max_message_size_exceeded",
                                            "onCloseFrame", "_connectionLost"))
    body0 = [x for x in ocf.node.body if not (isinstance(x, ast.Expr) and isinstance(x.value, ast.Constant))]
    NORMAL0 = ctx.program.class_const(wsp, "CLOSE_STATUS_CODE_NORMAL")

    def reads_state0(st):
        return any(isinstance(x, ast.Attribute) and norm.text(x) == "self.state" for x in ast.walk(st))

    def cell_pred(code):
        """is the status code reported as a protocol violation? (abstract evaluation of the method's prefix, helpers evaluated in place)"""
        hit = []

        def default(f_, a_, k_=None):
            if f_ == "self._protocol_violation":
                hit.append(1)
                return True
            return Sym(f"<{f_}>")
        env = {"self": Sym("protocol"), ocf.params()[1]: code, ocf.params()[2]: None, "WebSocketProtocol.CLOSE_STATUS_CODES_ALLOWED": list(allowed),
               "WebSocketProtocol.CLOSE_STATUS_CODE_NORMAL": NORMAL0, "self.CLOSE_STATUS_CODES_ALLOWED": list(allowed)}
        try:
            r_ = Tiny(env, default_call=default, inline_self=inl).run(body0, stop=reads_state0)
        except AnalysisError as e:
            raise AnalysisError(f"[C02.2-close-payload] onCloseFrame outside the modelled subset: {e}")
        if r_[0] == "raise":
            raise TypeError(r_[1])
        return bool(hit)
    if len(tests) == 1:
        pred = compile_predicate(tests[0].ast, ocf.params()[1], res)
        domain = range(0, 65536)
        where = ocf.loc(tests[0].ast)
        how = "over 0..65535"
    else:
        # the test is not a single comparison chain on the code (extracted helper, early returns ...): the prefix is evaluated cell-wise.  The
        # verdict is piecewise constant between the integer literals the code is compared with, so every literal of the method, of the helpers
        # it calls and of the allowed list is tried with its two neighbours (plus the RFC's own range ends)
        lits = set(aset) | {0, 999, 1000, 1004, 1005, 1006, 1011, 1015, 1016, 2999, 3000, 3999, 4000, 4999, 5000, 65535}
        srcs = [ocf.node] + [f_.node for nm_ in {c_.func.attr for c_ in ast.walk(ocf.node) if isinstance(c_, ast.Call) and isinstance(c_.func, ast.Attribute)}
                             for f_ in [ctx.program.lookup_method(wsp, nm_)] if f_ is not None and inl(nm_) is not None]
        for sn in srcs:
            lits |= {x.value for x in ast.walk(sn) if isinstance(x, ast.Constant) and isinstance(x.value, int) and not isinstance(x.value, bool) and 0 <= x.value <= 65535}
        domain = sorted({c_ for l_ in lits for c_ in (l_ - 1, l_, l_ + 1) if 0 <= c_ <= 65535})
        pred = cell_pred
        where = ocf.loc()
        how = f"on the {len(domain)} codes around every literal the code is compared with"
    bad = [c for c in domain if pred(c) == rfc6455.close_code_valid_reference(c, aset)]
    ctx.ob("onCloseFrame invalid-code predicate == RFC 7.4.2 over 0..65535", not bad,
           f"{len(bad)} codes judged wrongly ({how}), e.g. {bad[:6]}", where)
    # code None (empty close payload) is not a violation
    try:
        none_bad = cell_pred(None)   # the whole prefix of the method is evaluated: the None test may sit in an enclosing condition
    except TypeError:
        none_bad = True
    ctx.ob("empty close payload (code None) accepted", none_bad is False, "code None is treated as invalid or crashes the predicate", where)
    # ---- the validation prefix of onCloseFrame, decided cell-wise -------------------------------------------------------------
    # over (status code absent / legal / reserved) x (reason absent / present) x (validator verdict: valid?, ends on a code point?) x
    # (what the two failure sinks answer: True = connection dropped at once, False = closing handshake started)
    import itertools
    body = [x for x in ocf.node.body if not (isinstance(x, ast.Expr) and isinstance(x.value, ast.Constant))]
    P_CODE, P_RAW = ocf.params()[1], ocf.params()[2]
    NORMAL = ctx.program.class_const(wsp, "CLOSE_STATUS_CODE_NORMAL")

    def reads_state(st):
        return any(isinstance(x, ast.Attribute) and norm.text(x) == "self.state" for x in ast.walk(st))
    probs, cells = [], 0
    try:
        for code, has_reason, v0, v1, pv, ip in itertools.product((None, 1000, 3000, 999, 1005, 5000), (False, True), (True, False), (True, False), (True, False), (True, False)):
            if not has_reason and not (v0 and v1):
                continue
            cells += 1
            sinks, validated = [], []
            raw = Sym("raw-reason", methods={"decode": lambda *a_: Sym("decoded-reason")}) if has_reason else None
            validator = Sym("validator", methods={"validate": lambda x: (validated.append(x), [v0, v1, 0, 0])[1], "reset": lambda: None})

            def default(f_, a_, k_=None):
                if f_ == "self._protocol_violation":
                    sinks.append("protocol")
                    return pv
                if f_ == "self._invalid_payload":
                    sinks.append("payload")
                    return ip
                if f_.endswith("Utf8Validator"):
                    return validator
                return Sym(f"<{f_}>")
            env = {"self": Sym("protocol"), P_CODE: code, P_RAW: raw, "WebSocketProtocol.CLOSE_STATUS_CODES_ALLOWED": list(allowed),
                   "WebSocketProtocol.CLOSE_STATUS_CODE_NORMAL": NORMAL, "self.remoteCloseCode": "stale", "self.remoteCloseReason": "stale"}
            t = Tiny(env, default_call=default, inline_self=inl)
            r = t.run(body, stop=reads_state)
            bad_code = code is not None and not rfc6455.close_code_valid_reference(code, aset)
            cell = (f"status code {code}, reason {'present' if has_reason else 'absent'}" + (f" (validator says valid={v0}, ends on a code point={v1})" if has_reason else "") +
                    f", failure sinks answer protocol={pv} payload={ip}")
            want_sinks, want_ret = [], None
            if bad_code:
                want_sinks.append("protocol")
                if pv:
                    want_ret = True
            bad_reason = has_reason and not (v0 and v1)
            if want_ret is None and bad_reason:
                want_sinks.append("payload")
                if ip:
                    want_ret = True
            if sinks != want_sinks:
                probs.append(f"{cell}: failures reported {sinks or 'none'}, expected {want_sinks or 'none'}")
                continue
            if want_ret:
                if not (r[0] == "return" and r[1] is True):
                    probs.append(f"{cell}: processing continues ({r[0]} {r[1]}) although the connection was failed by dropping")
                continue
            if r[0] != "stop":
                probs.append(f"{cell}: {r[0]} {str(r[1])[:60]} before the state handling is reached")
                continue
            wc = NORMAL if bad_code else code
            if t.env.get("self.remoteCloseCode") != wc:
                probs.append(f"{cell}: remembered close code {t.env.get('self.remoteCloseCode')}, expected {wc}")
            rr = t.env.get("self.remoteCloseReason")
            if has_reason and not bad_reason:
                if not (isinstance(rr, Sym) and rr.name == "decoded-reason") or validated != [raw]:
                    probs.append(f"{cell}: remembered reason {rr} (validator ran on {validated}), expected the decoded raw reason after validating it")
            elif rr is not None:
                probs.append(f"{cell}: remembered reason {rr}, expected none")
        ctx.ob(f"onCloseFrame: reserved codes are protocol violations; the reason must be valid UTF-8 AND end on a code point (validator run on the raw reason), "
               f"else invalid payload; nothing of a refused frame is remembered [{cells} cells]", not probs, "; ".join(probs[:2]), ocf.loc())
    except AnalysisError as e:
        raise AnalysisError(f"[C02.2-close-payload] onCloseFrame outside the modelled subset: {e}")
    # ---- processControlFrame: split of the close payload, cell-wise over its length ---------------------------------------------
    pcf = wsp.methods.get("processControlFrame")
    ctx.analysed(pcf)
    body = [x for x in pcf.node.body if not (isinstance(x, ast.Expr) and isinstance(x.value, ast.Constant))]
    probs = []
    try:
        for ll, answer in itertools.product((0, 1, 2, 3, 9), (True, False)):
            seen = []

            def default(f_, a_, k_=None):
                if f_ == "self.onCloseFrame":
                    seen.append(list(a_))
                    return answer
                if f_ == "struct.unpack" and len(a_) == 2:
                    return [("u16", a_[0], a_[1])]
                raise AnalysisError(f"call {f_} on the CLOSE path of processControlFrame is not modelled")
            env = {"self": Sym("protocol"), "self.control_frame_data": [Buf(0, ll)] if ll else [], "self.current_frame.opcode": 8}
            t = Tiny(env, default_call=default, inline_self=inl)
            r = t.run(body)
            cell = f"close payload of {ll} octet(s)"
            want_code = ("u16", "!H", Buf(0, 2)) if ll >= 2 else None
            want_reason = Buf(2, ll) if ll > 2 else None
            if len(seen) != 1 or len(seen[0]) != 2:
                probs.append(f"{cell}: onCloseFrame called {len(seen)} time(s)")
                continue
            c_, rs_ = seen[0]
            okc = (c_ is None and want_code is None) or (isinstance(c_, tuple) and want_code is not None and c_[0] == "u16" and c_[1] in ("!H", ">H") and c_[2] == want_code[2])
            okr = (rs_ is None and want_reason is None) or (isinstance(rs_, Buf) and want_reason is not None and rs_ == want_reason)
            if not okc:
                probs.append(f"{cell}: status code handed on is {c_}, expected {'the first two octets in network order' if want_code else 'none'}")
            if not okr:
                probs.append(f"{cell}: reason handed on is {rs_}, expected {'everything after the two status octets' if want_reason else 'none'}")
            if answer and not (r[0] == "return" and r[1] is False):
                probs.append(f"{cell}: onCloseFrame asked to stop processing but processControlFrame gives {r[0]} {r[1]}")
        ctx.ob("processControlFrame: CLOSE payload split into (2-octet network-order code, rest as reason) by its length; dispatched to onCloseFrame [10 cells]",
               not probs, "; ".join(probs[:2]), pcf.loc())
    except AnalysisError as e:
        raise AnalysisError(f"[C02.2-close-payload] processControlFrame outside the modelled subset: {e}")


def _sink_test_returns(g, sink, want):
    """Test nodes `if self.<sink>(...)` whose True branch is `return <want>`; returns list of (node, ok)."""
    out = []
    for n in g.stmt_nodes():
        if n.kind == "test" and isinstance(n.ast, ast.Call) and self_call(n.ast, sink):
            tb = [m for m, lab in n.succ if lab and lab[0] == "T"]
            ok = all(m.kind == "stmt" and isinstance(m.ast, ast.Return) and isinstance(m.ast.value, ast.Constant)
                     and m.ast.value.value is want for m in tb) and bool(tb)
            out.append((n, ok))
    return out


def rule_utf8_policy(ctx):
    ctx.rule("C02.3-utf8-fail-fast")
    an = get_analysis(ctx)
    wsp = ctx.program.cls(WSP)
    ofd = wsp.methods["onFrameData"]
    ctx.analysed(ofd)
    g, mf, res = an.get(ofd)
    deliver = [(n, c) for n in g.stmt_nodes() for c in node_calls(n) if self_call(c, "_onMessageFrameData")]
    ctx.require(len(deliver) == 1, "onFrameData: _onMessageFrameData call not found")
    dn, dc = deliver[0]
    val = [n for n in g.stmt_nodes() if n.kind == "stmt" and isinstance(n.ast, ast.Assign) and is_self_attr(n.ast.targets[0], "utf8validateLast")]
    ctx.require(len(val) == 1, "onFrameData: utf8validateLast assignment not found")
    vn = val[0]
    ok = isinstance(vn.ast.value, ast.Call) and norm.text(vn.ast.value.func) == "self.utf8validator.validate" and \
        [norm.text(a) for a in vn.ast.value.args] == [norm.text(dc.args[0])]
    ctx.ob("validator is fed exactly the payload that is passed on", ok,
           "utf8validator.validate() argument differs from the data handed to _onMessageFrameData", ofd.loc(vn.ast))
    ctx.ob("validation enabled by utf8validateIncomingCurrentMessage", ("truth", "self.utf8validateIncomingCurrentMessage", None, True) in mf.at(vn),
           "validate() not under the per-message validation flag", ofd.loc(vn.ast))
    # on the validating path the delivery is preceded by validate + verdict test
    # the verdict may also be read through a local bound in the same statement (`self.utf8validateLast = verdict = ...validate(payload)`)
    stores_ = {}
    for y_ in walk_no_defs(ofd.node):
        if isinstance(y_, ast.Name) and isinstance(y_.ctx, ast.Store):
            stores_[y_.id] = stores_.get(y_.id, 0) + 1
    VERDICT = ["self.utf8validateLast"] + [t_.id for t_ in vn.ast.targets if isinstance(t_, ast.Name) and stores_.get(t_.id) == 1]
    tests = [n for n in g.stmt_nodes() if n.kind == "test" and any(re.search(r"(?<![\w.])" + re.escape(v_) + r"\b", ast.unparse(n.ast)) for v_ in VERDICT) and not isinstance(n.ast, ast.Call)]
    ctx.require(len(tests) == 1, "onFrameData: test of the validator verdict not found")
    t = tests[0]
    # mid-message a chunk may end inside a code point: the chunk is refused iff the validator says invalid (flag 0), whatever flag 1 says
    from ..core.tiny import Tiny
    table = {}
    try:
        for a_ in (False, True):
            for b_ in (False, True):
                env_ = {}
                for v_ in VERDICT:
                    env_[f"{v_}[0]"], env_[f"{v_}[1]"] = a_, b_
                table[(a_, b_)] = bool(Tiny(env_).ev(t.ast))
        okt = all(table[(a_, b_)] == (not a_) for a_, b_ in table)
        why = "" if okt else "refused for (valid, ends on code point) in " + str(sorted(k for k, v in table.items() if v))
    except AnalysisError as e:
        okt, why = False, f"verdict test not analysable: {e}"
    ctx.ob("a chunk is refused iff the validator reports invalid octets (a chunk may end inside a code point)", okt,
           f"{why}: valid text whose multi-octet character is cut by a read or fragment boundary would be failed (or invalid octets accepted)", ofd.loc(t.ast))
    # any path from validate to delivery passes the verdict test
    ok = not g.path_exists(vn, dn, avoid=lambda x: x is t)
    ctx.ob("verdict tested before the payload is passed on", ok, "a path from validate() reaches _onMessageFrameData without testing the verdict", ofd.loc(dn.ast))
    sinks = _sink_test_returns(g, "_invalid_payload", False)
    ok = len(sinks) == 1 and sinks[0][1] and g.always_preceded_by(sinks[0][0], lambda x: x is t)
    ctx.ob("invalid UTF-8 -> _invalid_payload, stop (return False) when it says so", ok,
           "onFrameData no longer returns False when _invalid_payload() requests to stop", ofd.loc())
    if sinks:
        # delivery not reachable from the T branch of the sink test
        tb = [m for m, lab in sinks[0][0].succ if lab and lab[0] == "T"]
        ctx.ob("no delivery after a stop verdict", not any(dn.id in g.reachable(m) for m in tb),
               "payload passed on after _invalid_payload() asked to stop", ofd.loc())
    # onFrameEnd
    ofe = wsp.methods["onFrameEnd"]
    ctx.analysed(ofe)
    g2, mf2, res2 = an.get(ofe)
    end = [(n, c) for n in g2.stmt_nodes() for c in node_calls(n) if self_call(c, "_onMessageEnd")]
    ctx.require(len(end) == 1, "onFrameEnd: _onMessageEnd call not found")
    en = end[0][0]
    t2 = [n for n in g2.stmt_nodes() if n.kind == "test" and "self.utf8validateLast" in ast.unparse(n.ast) and "utf8validateIncomingCurrentMessage" not in ast.unparse(n.ast) and not isinstance(n.ast, ast.Call)]
    ctx.require(len(t2) == 1, "onFrameEnd: test of the validator verdict not found")
    try:
        tb2 = {(a_, b_): bool(Tiny({"self.utf8validateLast[0]": a_, "self.utf8validateLast[1]": b_}).ev(t2[0].ast)) for a_ in (False, True) for b_ in (False, True)}
        # at message end flag 0 is already known true (a false one stopped the message earlier): decisive cells are (True, *)
        ok_end = tb2[(True, False)] is True and tb2[(True, True)] is False
    except AnalysisError:
        ok_end = False
    ctx.ob("at message end the text is refused iff it does not end on a code point", ok_end, "end-of-message verdict test changed", ofe.loc(t2[0].ast))
    flag = [n for n in g2.stmt_nodes() if n.kind == "test" and set(norm.atoms(n.ast, True, res2)) == {("truth", "self.utf8validateIncomingCurrentMessage", None, True)}]
    ctx.require(len(flag) == 1, "onFrameEnd: validation flag test not found")
    tb = [m for m, lab in flag[0].succ if lab and lab[0] == "T"]
    ok = all(not g2.path_exists(m, en, avoid=lambda x: x is t2[0]) or m is t2[0] for m in tb)
    ctx.ob("text message must end on a code point before _onMessageEnd", ok,
           "with validation on, _onMessageEnd is reachable without the ends-on-code-point test", ofe.loc(en.ast))
    ctx.ob("message end only for FIN frames", ("truth", "self.current_frame.fin", None, True) in mf2.at(en), "_onMessageEnd not under current_frame.fin", ofe.loc(en.ast))
    sinks = _sink_test_returns(g2, "_invalid_payload", False)
    ok = len(sinks) == 1 and sinks[0][1]
    ctx.ob("truncated code point -> _invalid_payload, stop when it says so", ok, "onFrameEnd no longer returns False on stop", ofe.loc())
    if sinks:
        tb = [m for m, lab in sinks[0][0].succ if lab and lab[0] == "T"]
        ctx.ob("no _onMessageEnd after a stop verdict", not any(en.id in g2.reachable(m) for m in tb), "message delivered after stop", ofe.loc())
    # onFrameBegin resets the validator per text message
    ofb = wsp.methods["onFrameBegin"]
    ctx.analysed(ofb)
    g3, mf3, res3 = an.get(ofb)
    rs = [(n, c) for n in g3.stmt_nodes() for c in node_calls(n) if norm.text(c.func) == "self.utf8validator.reset"]
    newmsg = [n for n in g3.stmt_nodes() if n.kind == "test" and set(norm.atoms(n.ast, True, res3)) == {("truth", "self.inside_message", None, False)}]
    ok = len(rs) == 1 and ("eq", "self.current_frame.opcode", ("c", 1), True) in mf3.at(rs[0][0]) and \
        ("truth", "self.utf8validateIncoming", None, True) in mf3.at(rs[0][0]) and len(newmsg) == 1 and \
        g3.always_preceded_by(rs[0][0], lambda x: x is newmsg[0]) and \
        not any(rs[0][0].id in g3.reachable(m) for m, lab in newmsg[0].succ if lab and lab[0] == "F")
    ctx.ob("validator reset at the first frame of each text message", ok, "reset() guard changed (must be: new message, opcode text, validation on)", ofb.loc())
    fl = find_assign_nodes(g3, "utf8validateIncomingCurrentMessage")
    okf = len(fl) == 2 and all((norm.key(v, res3) == ("c", True)) == (("eq", "self.current_frame.opcode", ("c", 1), True) in mf3.at(n)) for n, v in fl)
    ctx.ob("per-message validation flag set iff text message", okf, "utf8validateIncomingCurrentMessage assignment changed", ofb.loc())


def rule_failure_policy(ctx):
    ctx.rule("C02.4-failure-policy")
    an = get_analysis(ctx)
    wsp = ctx.program.cls(WSP)
    for name, code in (("_protocol_violation", 1002), ("_invalid_payload", 1007)):
        fn = wsp.methods[name]
        ctx.analysed(fn)
        g, mf, res = an.get(fn)
        calls = [(n, c) for n in g.stmt_nodes() for c in node_calls(n) if self_call(c, "_fail_connection")]
        ok = len(calls) == 1 and norm.key(calls[0][1].args[0], res) == ("c", code) if calls and calls[0][1].args else False
        ctx.ob(f"{name} fails the connection with {code}", bool(ok), f"{name} does not call _fail_connection({code}, ...)", fn.loc())
        rets = [n for n in g.stmt_nodes() if n.kind == "stmt" and isinstance(n.ast, ast.Return)]
        good = bool(rets)
        for r in rets:
            v = norm.key(r.ast.value, res) if r.ast.value is not None else ("c", None)
            t = norm.is_truthy_known(mf.at(r), "self.failByDrop")
            if isinstance(r.ast.value, ast.Attribute) and norm.text(r.ast.value) == "self.failByDrop":
                continue
            if v[0] != "c" or t is None or bool(v[1]) != t:
                good = False
            if calls and not g.always_preceded_by(r, lambda x: x is calls[0][0]):
                good = False
        ctx.ob(f"{name} returns True iff failByDrop (after failing)", good, "return value no longer equals self.failByDrop", fn.loc())
    fc = wsp.methods["_fail_connection"]
    ctx.analysed(fc)
    g, mf, res = an.get(fc)
    flag = [n for n, v in find_assign_nodes(g, "failedByMe") if norm.key(v, res) == ("c", True)]
    ctx.require(len(flag) == 1, "_fail_connection: failedByMe = True not found")
    acts = [(n, c) for n in g.stmt_nodes() for c in node_calls(n) if self_call(c, ("dropConnection", "sendCloseFrame"))]
    ctx.require(len(acts) >= 2, "_fail_connection: drop/close actions not found")
    for n, c in acts:
        ctx.ob(f"_fail_connection: failedByMe set before {stmt_key(c)[:40]}", g.always_preceded_by(n, lambda x: x is flag[0]),
               "delivery gate flag failedByMe not set before the connection is failed", fc.loc(c))
        t = norm.is_truthy_known(mf.at(n), "self.failByDrop")
        if self_call(c, "dropConnection") and t is True:
            wc = [m for m, v in find_assign_nodes(g, "wasClean") if norm.key(v, res) == ("c", False)]
            ab = kwarg(c, "abort", 0)
            ctx.ob("_fail_connection: drop branch reports unclean and aborts",
                   bool(wc) and g.always_preceded_by(n, lambda x: x in wc) and ab is not None and norm.key(ab, res) == ("c", True),
                   "failByDrop branch must set wasClean = False and dropConnection(abort=True)", fc.loc(c))
        if self_call(c, "sendCloseFrame"):
            ctx.ob("_fail_connection: close branch only when not failByDrop", t is False, "close frame sent although failByDrop", fc.loc(c))
            ce = kwarg(c, "code", 0)
            ctx.ob("_fail_connection: close frame carries the given code", ce is not None and norm.text(ce) == "code",
                   "sendCloseFrame is not passed the `code` parameter", fc.loc(c))
    ctx.ob("_fail_connection: both policies present",
           any(self_call(c, "dropConnection") and norm.is_truthy_known(mf.at(n), "self.failByDrop") is True for n, c in acts) and
           any(self_call(c, "sendCloseFrame") for n, c in acts), "drop or close branch missing", fc.loc())


def rule_control_dispatch(ctx):
    ctx.rule("C02.5-ping-pong-dispatch")
    an = get_analysis(ctx)
    wsp = ctx.program.cls(WSP)
    op = wsp.methods["onPing"]
    ctx.analysed(op)
    g, mf, res = an.get(op)
    S_OPEN = ctx.program.class_const(wsp, "STATE_OPEN")
    calls = [(n, c) for n in g.stmt_nodes() for c in node_calls(n) if self_call(c, "sendPong")]
    ok = len(calls) == 1 and len(calls[0][1].args) == 1 and norm.text(calls[0][1].args[0]) == op.params()[1] and not calls[0][1].keywords
    ctx.ob("onPing answers with sendPong(<same payload>)", ok, "pong does not echo the ping payload parameter unchanged", op.loc())
    if calls:
        ctx.ob("pong only while OPEN", ("eq", "self.state", ("c", S_OPEN), True) in mf.at(calls[0][0]), "sendPong not under state == OPEN", op.loc())
        stores = [n for n in g.stmt_nodes() if op.params()[1] in __import__("sa.core.cfg", fromlist=["x"]).stored_lvalues(n)]
        ctx.ob("ping payload not modified before echo", not stores, "payload parameter reassigned in onPing", op.loc())
    # "answers each ping with a pong carrying the same payload": every payload a ping can legally carry (0..125 octets) must go out.  onPing
    # with sendPong evaluated in place (sa.core.tiny), cell-wise over the payload length; sendPing likewise (it is the sibling, and the automatic
    # ping uses it)
    from ..core.tiny import Tiny, Sym, Buf
    from .common import inline_private
    probs = []
    try:
        for fname, opcode_ in (("onPing", 10), ("sendPing", 9), ("sendPong", 10)):
            f_ = wsp.methods[fname]

            def inl(name):
                if name in ("sendPong", "sendPing"):
                    return wsp.methods[name].node
                return inline_private(ctx, wsp, exclude=("sendFrame",))(name)
            for ln in (0, 1, 124, 125, 126):
                frames = []
                pl = Buf(0, ln) if ln else (None if fname != "onPing" else Buf(0, 0))

                def orc(fn_, a_, k_=None):
                    if fn_ == "self.sendFrame":
                        frames.append((list(a_), dict(k_ or {})))
                        return None
                    return Sym(f"<{fn_}>")
                env = {"self": Sym("protocol"), "self.state": S_OPEN, "WebSocketProtocol.STATE_OPEN": S_OPEN, "self.log": Sym("log"), f_.params()[1]: pl}
                r = Tiny(env, default_call=orc, inline_self=inl, opaque_globals=True, model_strings=True).run(
                    [x for x in f_.node.body if not (isinstance(x, ast.Expr) and isinstance(x.value, ast.Constant))])
                tag = f"{fname}(payload of {ln} octets)"
                if ln <= 125:
                    okf = r[0] != "raise" and len(frames) == 1 and (frames[0][1].get("opcode", frames[0][0][0] if frames[0][0] else None) == opcode_)
                    sent = frames[0][1].get("payload", frames[0][0][1] if frames and len(frames[0][0]) > 1 else None) if frames else None
                    if not okf or (ln and sent is not pl) or (not ln and sent is not None and not (isinstance(sent, Buf) and len(sent) == 0)):
                        probs.append(f"{tag}: {r[0]} {str(r[1])[:50]}, frames {frames}; expected one control frame (opcode {opcode_}) with exactly this payload")
                elif r[0] != "raise" and frames:
                    probs.append(f"{tag}: a control frame with more than 125 octets is written")
    except AnalysisError as e:
        raise AnalysisError(f"[C02.5-ping-pong-dispatch] onPing / sendPong / sendPing outside the modelled subset: {e}")
    ctx.ob("every legal ping payload (0..125 octets) is echoed in a pong; longer control payloads are never written [15 cells]", not probs, "; ".join(probs[:2]), op.loc())
    pcf = wsp.methods["processControlFrame"]
    g2, mf2, res2 = an.get(pcf)
    # the assembled control payload: the local (whatever its name) or the expression itself handed to the handlers
    JOIN = "b''.join(self.control_frame_data)"
    pd = [n for n in g2.stmt_nodes() if n.kind == "stmt" and isinstance(n.ast, ast.Assign) and len(n.ast.targets) == 1 and isinstance(n.ast.targets[0], ast.Name)
          and norm.text(n.ast.value).replace('"', "'") == JOIN]
    pnames = {n.ast.targets[0].id for n in pd}
    others = [n for n in g2.stmt_nodes() if n.kind == "stmt" and isinstance(n.ast, (ast.Assign, ast.AugAssign)) and
              any(isinstance(t_, ast.Name) and t_.id in pnames for t_ in (n.ast.targets if isinstance(n.ast, ast.Assign) else [n.ast.target])) and n not in pd]
    for opcode, cb in ((9, "_onPing"), (10, "_onPong")):
        cs = [(n, c) for n in g2.stmt_nodes() for c in node_calls(n) if self_call(c, cb)]
        ok = len(cs) == 1 and ("eq", "self.current_frame.opcode", ("c", opcode), True) in mf2.at(cs[0][0]) and len(cs[0][1].args) == 1 and \
            ((isinstance(cs[0][1].args[0], ast.Name) and cs[0][1].args[0].id in pnames) or norm.text(cs[0][1].args[0]).replace('"', "'") == JOIN)
        ctx.ob(f"opcode {opcode} -> {cb}(payload)", ok, f"control dispatch for opcode {opcode} changed", pcf.loc())
    ok = len(pd) <= 1 and not others and (len(pd) == 1 or all(
        any(norm.text(c.args[0]).replace('"', "'") == JOIN for n in g2.stmt_nodes() for c in node_calls(n) if self_call(c, cb) and c.args) for cb in ("_onPing", "_onPong")))
    ctx.ob("control payload is the concatenation of the received control frame data", ok, "payload assembly changed", pcf.loc())


def rule_delivery_gate(ctx):
    ctx.rule("C02.6-delivery-gate")
    an = get_analysis(ctx)
    wsp = ctx.program.cls(WSP)
    sites = [("onMessageEnd", lambda c: self_call(c, "_onMessage")),
             ("onMessageFrameData", lambda c: isinstance(c.func, ast.Attribute) and c.func.attr in ("append", "extend") and
              norm.text(c.func.value) in ("self.message_data", "self.frame_data")),
             ("onMessageFrame", lambda c: isinstance(c.func, ast.Attribute) and c.func.attr in ("append", "extend") and
              norm.text(c.func.value) in ("self.message_data", "self.frame_data")),
             ("onMessageFrameEnd", lambda c: self_call(c, "_onMessageFrame"))]
    for name, pred in sites:
        fn = wsp.methods[name]
        ctx.analysed(fn)
        g, mf, res = an.get(fn)
        found = [(n, c) for n in g.stmt_nodes() for c in node_calls(n) if pred(c)]
        ctx.require(found, f"{name}: buffering/delivery site not found")
        for n, c in found:
            if ("eq", "self.websocket_version", ("c", 0), True) in mf.at(n):
                # Hixie-76 branch (websocket_version == 0): not negotiable, both handshakes refuse it -> unreachable
                ctx.note(f"{name}: {stmt_key(c)[:50]} lies in the unreachable Hixie-76 branch; not armed")
                continue
            ctx.ob(f"{name}: {stmt_key(c)[:50]} gated by not failedByMe", ("truth", "self.failedByMe", None, False) in mf.at(n),
                   "received data buffered or delivered after this side failed the connection", fn.loc(c))


def run(ctx):
    # what the application configures is what the connection uses: options handed to setProtocolOptions reach the factory attribute of their name
    from .common import rule_option_setters
    rule_option_setters(ctx, "C02.11-configured-judging-options-reach-the-factory", [('WebSocketServerFactory', 'utf8validateIncoming', 'bool'), ('WebSocketServerFactory', 'requireMaskedClientFrames', 'bool'), ('WebSocketServerFactory', 'failByDrop', 'bool'), ('WebSocketClientFactory', 'utf8validateIncoming', 'bool'), ('WebSocketClientFactory', 'acceptMaskedServerFrames', 'bool'), ('WebSocketClientFactory', 'failByDrop', 'bool')],
                        "incoming streams are then judged under another policy than the configured one")
    rule_frame_end(ctx)
    rule_header_cascade(ctx)
    rule_close_payload(ctx)
    rule_utf8_policy(ctx)
    rule_failure_policy(ctx)
    rule_control_dispatch(ctx)
    rule_delivery_gate(ctx)
    rule_progress(ctx)
    from .c01 import rule_asyncio_queue
    rule_asyncio_queue(ctx, "C02.9-asyncio-reads-reach-the-decoder-in-order")
    from .common import rule_default_options
    rule_default_options(ctx, "C02.10-default-options", (("WebSocketServerFactory", "requireMaskedClientFrames", True), ("WebSocketClientFactory", "acceptMaskedServerFrames", False),
                                                          ("WebSocketServerFactory", "utf8validateIncoming", True), ("WebSocketClientFactory", "utf8validateIncoming", True)),
                         "with nothing configured the endpoint must judge masking per role and text payloads as RFC 6455 prescribes")


def rule_progress(ctx, rule_id="C02.7-complete-frames-need-no-further-octets"):
    """Structural necessary condition of read-boundary independence: processData() asks to be called again exactly when
    it can make progress without new input -- in particular a zero-length frame whose header ended the buffer is completed now."""
    import numpy as np
    from ..core.vec import Vec
    ctx.rule(rule_id)
    p = ctx.program
    fn = p.func(f"{WSP}.processData")
    ctx.analysed(fn)
    res = norm.Resolver(p, fn.module, fn.cls)
    top = [s for s in fn.node.body if isinstance(s, ast.If) and norm.text(s.test) == "self.current_frame is None"]
    ctx.require(len(top) == 1, "processData: `if self.current_frame is None` split not found")
    hdr, inside = top[0].body, top[0].orelse
    PL, DL = np.meshgrid(np.array([0, 1, 125, 126, 65536, 2 ** 40]), np.array([0, 1, 9]), indexing="ij")
    pl, dl = PL.ravel(), DL.ravel()
    n = len(pl)

    def evaluate(expr, env):
        def attr_hook(text, node, mask):
            return env.get(text, NotImplemented)

        def call_hook(call, mask, interp):
            t = norm.text(call)
            if t in env:
                return env[t]
            if norm.text(call.func) == "bool" and len(call.args) == 1 and not call.keywords:
                return interp.truth(interp.eval(call.args[0], mask))
            return NotImplemented
        v = Vec(n, res, attr_hook, call_hook)
        return v.truth(v.eval(expr, np.ones(n, dtype=bool)))
    # roles, not names: the declared payload length is what the header branch stores as the frame's length (4th FrameHeader argument);
    # the number of buffered octets is len(self.data), possibly held in a local
    from .common import name_for
    fh = [c for c in ast.walk(ast.Module(body=hdr, type_ignores=[])) if isinstance(c, ast.Call) and call_name(c) == "FrameHeader" and len(c.args) >= 4]
    ctx.require(len(fh) == 1, "processData: FrameHeader(...) construction not found in the header branch")
    PLN = norm.text(fh[0].args[3])
    BLN = name_for(fn, "len(self.data)")
    # header branch: the return that follows self.onFrameBegin()
    rets = []
    for x in ast.walk(ast.Module(body=hdr, type_ignores=[])):
        body = getattr(x, "body", None)
        if isinstance(body, list):
            for blk in (body, getattr(x, "orelse", []) or []):
                for a, b in zip(blk, blk[1:]):
                    if isinstance(a, ast.Expr) and isinstance(a.value, ast.Call) and self_call(a.value, "onFrameBegin") and isinstance(b, ast.Return):
                        rets.append(b)
    ctx.require(len(rets) == 1, "processData: return after onFrameBegin() not found")
    try:
        got = evaluate(rets[0].value, {PLN: pl, "len(self.data)": dl, BLN: dl, "self.data": dl})
        want = (pl == 0) | (dl > 0)
        bad = np.nonzero(got != want)[0]
        ex = f"payload length {int(pl[bad[0]])}, {int(dl[bad[0]])} octets left in the buffer: returns {bool(got[bad[0]])}" if len(bad) else ""
        ctx.ob("after a complete header, processing continues iff the frame is empty or octets are buffered", len(bad) == 0,
               f"`{stmt_key(rets[0])}`: {ex} -- a zero-length frame (empty ping/pong/close/message, empty final fragment) whose header ends a read "
               f"would stay pending until unrelated later octets arrive", fn.loc(rets[0]))
    except AnalysisError as e:
        ctx.ob("after a complete header, processing continues iff the frame is empty or octets are buffered", False, f"return expression not analysable: {e}", fn.loc(rets[0]))
    # inside-frame branch: last return
    tail = [s for s in inside if isinstance(s, ast.Return)]
    ctx.require(len(tail) == 1, "processData: final return of the in-frame branch not found")
    try:
        got = evaluate(tail[0].value, {"len(self.data)": dl, BLN: dl, "self.data": dl})
        ctx.ob("after frame payload, processing continues iff octets are left", bool((got == (dl > 0)).all()), f"`{stmt_key(tail[0])}`", fn.loc(tail[0]))
    except AnalysisError as e:
        ctx.ob("after frame payload, processing continues iff octets are left", False, f"return expression not analysable: {e}", fn.loc(tail[0]))
    # empty payload still reaches onFrameData / onFrameEnd
    g = CFG(fn.node)
    fd = [n_ for n_ in g.stmt_nodes() for c in node_calls(n_) if self_call(c, "onFrameData")]
    ctx.require(len(fd) == 1, "processData: onFrameData call not found")
    first_inside = [n_ for n_ in g.stmt_nodes() if n_.ast is inside[0]]
    ctx.ob("the frame-data hook runs on every pass through the in-frame branch (also with an empty payload)",
           bool(first_inside) and not g.path_exists(first_inside[0], g.exit, avoid=lambda x: x is fd[0], edge_ok=CFG._no_exc(None)),
           "a path through the in-frame branch skips onFrameData: zero-length frames would never end", fn.loc(fd[0].ast))
    # driver loop
    cd = p.func(f"{WSP}.consumeData")
    ctx.analysed(cd)
    loops = [s for s in ast.walk(cd.node) if isinstance(s, ast.While) and any(self_call(c, "processData") for c in ast.walk(s.test) if isinstance(c, ast.Call))]
    ok = bool(loops) and all(isinstance(l.test, ast.BoolOp) and isinstance(l.test.op, ast.And) and isinstance(l.test.values[0], ast.Call) and self_call(l.test.values[0], "processData")
                             and all(isinstance(s, ast.Pass) for s in l.body) for l in loops)
    ctx.ob("consumeData() repeats processData() while it asks for it (and the connection is not closed)", ok, "driver loop changed", cd.loc())
