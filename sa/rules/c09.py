"""C09 - UTF-8 validation equals RFC 3629, incrementally and in both implementations."""
import ast
import os

import numpy as np

from ..core.index import AnalysisError, walk_no_defs, calls_in, call_name
from ..core.cfg import node_calls
from ..core import norm, cfront
from ..spec import rfc3629
from .common import get_analysis, is_self_attr, stmt_key

META = {
    "explanation": "The DFA denoted by UTF8VALIDATOR_DFA under the index expression of the validate loop is extracted from the "
                   "source and compared with a recogniser generated from the RFC 3629 ABNF by exhaustive product-automaton "
                   "reachability (every transition of every reachable state on every byte; accept = on a code point boundary, "
                   "reject absorbing). The C table literal must equal the Python tuple, the C unrolled DFA_TRANSITION macro is "
                   "compiled to its transition relation over 16 x 256 (state, octet) pairs and compared the same way; index / "
                   "state bookkeeping of each reachable implementation is checked on every exit path; the dispatcher may reach "
                   "only checked implementations.",
    "exhaustive": True,
    "trusted": ["sa/spec/rfc3629.py (ABNF transcription)", "pycparser", "the compiled extension is built from the analysed .c file"],
    "assumptions": ["chunk independence follows from: the DFA state is the only datum carried between calls (checked) and positions are sums of chunk lengths (checked)"],
}

PYMOD = "autobahn.websocket.utf8validator"


def _py_table(ctx):
    m = ctx.program.module(PYMOD)
    e = m.consts.get("UTF8VALIDATOR_DFA")
    ctx.require(e is not None, "UTF8VALIDATOR_DFA not found")
    ok, v = ctx.program.try_const(e, m)
    ctx.require(ok and isinstance(v, tuple) and all(isinstance(x, int) for x in v), "UTF8VALIDATOR_DFA is not a literal tuple of ints")
    acc = ctx.program.try_const(m.consts.get("UTF8_ACCEPT"), m) if "UTF8_ACCEPT" in m.consts else (False, None)
    rej = ctx.program.try_const(m.consts.get("UTF8_REJECT"), m) if "UTF8_REJECT" in m.consts else (False, None)
    ctx.require(acc[0] and rej[0], "UTF8_ACCEPT / UTF8_REJECT constants not found")
    return m, list(v), acc[1], rej[1]


def _eval_index(expr, env):
    """Evaluate a Python index expression over numpy arrays; names/subscripts answered from env (text -> array or callable)."""
    t = norm.text(expr)
    if t in env:
        return env[t]
    if isinstance(expr, ast.Constant) and isinstance(expr.value, int):
        return expr.value
    if isinstance(expr, ast.BinOp):
        l, r = _eval_index(expr.left, env), _eval_index(expr.right, env)
        ops = {ast.Add: lambda a, b: a + b, ast.Mult: lambda a, b: a * b, ast.LShift: lambda a, b: a << b, ast.BitOr: lambda a, b: a | b,
               ast.BitAnd: lambda a, b: a & b, ast.Sub: lambda a, b: a - b}
        f = ops.get(type(expr.op))
        if f is None:
            raise AnalysisError(f"operator in DFA index expression not modelled: {t}")
        return f(l, r)
    if isinstance(expr, ast.Subscript):
        base = norm.text(expr.value)
        if base in env and callable(env[base]):
            return env[base](_eval_index(expr.slice, env))
    raise AnalysisError(f"DFA index expression reads {t}")


def _dfa_compare(ctx, name, step, accept, reject, nstates, loc):
    for b in range(256):
        if step(reject, b) != reject:
            ctx.ob(f"{name}: reject state is absorbing", False, f"from REJECT on byte 0x{b:02x} the automaton leaves to state {step(reject, b)}", loc)
            break
    else:
        ctx.ob(f"{name}: reject state is absorbing", True)
    ok, n, diff = rfc3629.equivalent(step, accept, accept, reject)
    ctx.per_rule[ctx.cur_rule][f"{name} transitions compared"] = n
    ctx.ob(f"{name}: language and code-point boundaries equal RFC 3629 (product reachability, {n} transitions)", ok,
           (f"state {diff[0]} on byte 0x{diff[1]:02x} -> {diff[2]}: {diff[3]}" if diff else ""), loc)


def _py_roles(ctx, fn):
    """Roles in a pure-Python DFA driver, found by structure (not by local names): the step statement
    `<state> = TABLE[256 + ...]`, the state variable, the byte expression (the argument of the TABLE[...] class lookup,
    inside the step or through a local holding the class)."""
    steps = [s_ for s_ in walk_no_defs(fn.node) if isinstance(s_, ast.Assign) and isinstance(s_.value, ast.Subscript) and norm.text(s_.value.value) == "UTF8VALIDATOR_DFA_S"
             and any(isinstance(x, ast.Constant) and x.value == 256 for x in ast.walk(s_.value.slice))]
    ctx.require(len(steps) == 1, f"{fn.qualname}: DFA step `state = TABLE[256 + ...]` not found")
    step = steps[0]
    statevar = norm.text(step.targets[0])
    inner = [x for x in ast.walk(step.value.slice) if isinstance(x, ast.Subscript) and norm.text(x.value) == "UTF8VALIDATOR_DFA_S"]
    aliases = {}
    byte = None
    if inner:
        byte = norm.text(inner[0].slice)
    else:
        for s_ in walk_no_defs(fn.node):
            if isinstance(s_, ast.Assign) and isinstance(s_.targets[0], ast.Name) and isinstance(s_.value, ast.Subscript) and norm.text(s_.value.value) == "UTF8VALIDATOR_DFA_S" \
                    and s_ is not step and any(isinstance(x, ast.Name) and x.id == s_.targets[0].id for x in ast.walk(step.value.slice)):
                aliases[s_.targets[0].id] = s_
                byte = norm.text(s_.value.slice)
    ctx.require(byte is not None, f"{fn.qualname}: byte class lookup not found in the DFA step")
    return {"step": step, "statevar": statevar, "byte": byte, "class_aliases": aliases}


def rule_python_dfa(ctx):
    ctx.rule("C09.1-python-dfa-equals-rfc3629")
    m, T, ACC, REJ = _py_table(ctx)
    ctx.ob("table has 256 byte classes + 16-wide transition rows", len(T) >= 256 + 9 * 16 and (len(T) - 256) % 16 == 0, f"len {len(T)}", m.relpath)
    nstates = (len(T) - 256) // 16
    ctx.ob("byte classes in 0..15", all(0 <= c < 16 for c in T[:256]), "class out of range", m.relpath)
    ctx.ob("next states within the table", all(0 <= s < nstates for s in T[256:]), "transition to a state without a row", m.relpath)
    Ta = np.array(T, dtype=np.int64)
    c = m.classes.get("Utf8Validator")
    ctx.require(c is not None, "pure-Python Utf8Validator not found")
    # table alias used by the loop
    alias = m.consts.get("UTF8VALIDATOR_DFA_S")
    ctx.ob("loop table is bytes(UTF8VALIDATOR_DFA)", alias is not None and norm.text(alias) == "bytes(UTF8VALIDATOR_DFA)", "UTF8VALIDATOR_DFA_S changed", m.relpath)
    ctx.ob("all table entries fit into a byte", all(0 <= x < 256 for x in T), "entry >= 256", m.relpath)
    for meth in ("validate", "decode"):
        fn = c.methods.get(meth)
        ctx.require(fn is not None, f"Utf8Validator.{meth} missing")
        ctx.analysed(fn)
        roles = _py_roles(ctx, fn)
        steps, statevar = [roles["step"]], roles["statevar"]
        idx = steps[0].value.slice
        S, B = np.meshgrid(np.arange(nstates), np.arange(256), indexing="ij")
        env = {statevar: S, roles["byte"]: B, "UTF8VALIDATOR_DFA_S": lambda i: Ta[i]}
        for nm in roles["class_aliases"]:
            env[nm] = Ta[B]  # a local holding TABLE[byte]: the class of the byte
        I = _eval_index(idx, env)
        ctx.ob(f"{meth}: index expression stays inside the table", bool(np.all((I >= 0) & (I < len(T)))), "index out of range for some (state, byte)", fn.loc(steps[0]))
        NXT = Ta[np.clip(I, 0, len(T) - 1)]
        _dfa_compare(ctx, f"Utf8Validator.{meth}", lambda s, b: int(NXT[s, b]), ACC, REJ, nstates, fn.loc(steps[0]))
    rs = c.methods["reset"]
    st = {norm.text(s.targets[0]): norm.text(s.value) for s in walk_no_defs(rs.node) if isinstance(s, ast.Assign)}
    ctx.ob("reset(): state = ACCEPT, index = 0", st.get("self._state") == "UTF8_ACCEPT" and st.get("self._index") == "0", f"{st}", rs.loc())
    init = c.methods["__init__"]
    ctx.ob("__init__ resets", any(norm.text(x.func) == "self.reset" for x in calls_in(init.node)), "constructor no longer resets", init.loc())


def rule_python_bookkeeping(ctx):
    ctx.rule("C09.4-index-bookkeeping-python")
    an = get_analysis(ctx)
    m, T, ACC, REJ = _py_table(ctx)
    fn = m.classes["Utf8Validator"].methods["validate"]
    g, mf, res = an.get(fn)
    roles = _py_roles(ctx, fn)
    SV = roles["statevar"]
    inner = [x for x in ast.walk(roles["step"].value.slice) if isinstance(x, ast.Subscript) and norm.text(x.value) == "UTF8VALIDATOR_DFA_S"]
    ctx.require(bool(inner) and isinstance(inner[0].slice, ast.Subscript) and isinstance(inner[0].slice.value, ast.Name) and isinstance(inner[0].slice.slice, ast.Name),
                "validate: byte is not read as <chunk>[<cursor>]")
    CH, CUR = inner[0].slice.value.id, inner[0].slice.slice.id
    ctx.ob("the validated octets are the chunk passed in", CH == fn.params()[1], f"reads {CH}", fn.loc())
    from ..core.flow import local_assignments
    LV = [st_.targets[0].id for st_ in walk_no_defs(fn.node) if isinstance(st_, ast.Assign) and isinstance(st_.targets[0], ast.Name) and norm.text(st_.value) == f"len({CH})"]
    ctx.require(len(LV) == 1, "validate: length variable (len(chunk)) not found")
    LV = LV[0]
    rets = [n for n in g.stmt_nodes() if n.kind == "stmt" and isinstance(n.ast, ast.Return)]
    ctx.require(len(rets) == 2, "validate: expected a reject return and a normal return")
    ld = [n for n in g.stmt_nodes() if n.kind == "stmt" and isinstance(n.ast, ast.Assign) and norm.text(n.ast.targets[0]) == SV and norm.text(n.ast.value) == "self._state"]
    ctx.ob("state loaded from the object at entry (incremental)", len(ld) == 1, "state = self._state missing", fn.loc())
    inc = [n for n in g.stmt_nodes() if n.kind == "stmt" and ((isinstance(n.ast, ast.AugAssign) and norm.text(n.ast.target) == CUR and isinstance(n.ast.op, ast.Add) and norm.text(n.ast.value) == "1")
                                                              or (isinstance(n.ast, ast.Assign) and norm.text(n.ast.targets[0]) == CUR and norm.text(n.ast.value) in (f"{CUR} + 1", f"1 + {CUR}")))]
    ctx.require(len(inc) == 1, "validate: cursor increment by one not found")
    step = [n for n in g.stmt_nodes() if n.ast is roles["step"]]
    rejfact = ("eq", SV, ("c", REJ), True)

    def is_rej_value(e):
        ok_, v_ = ctx.program.try_const(e, fn.module, fn.cls)
        return norm.text(e) == SV or (ok_ and v_ == REJ)
    for r in rets:
        vals = [norm.text(e) for e in r.ast.value.elts] if isinstance(r.ast.value, ast.Tuple) else []
        facts = mf.at(r)
        if rejfact in facts:
            ok = vals == ["False", "False", CUR, "self._index"]
            ctx.ob("reject: returns (False, False, i, total)", ok, f"returns {vals}", fn.loc(r.ast))
            ctx.ob("reject: position is the offending byte (cursor not yet advanced)", not g.path_exists(step[0], r, avoid=lambda x: False) or
                   not (g.path_exists(step[0], inc[0], avoid=lambda x: x is r) and g.path_exists(inc[0], r, avoid=lambda x: x is step[0])),
                   "cursor incremented before the position is reported", fn.loc(r.ast))
            st = [n for n in g.stmt_nodes() if n.kind == "stmt" and isinstance(n.ast, ast.Assign) and norm.text(n.ast.targets[0]) == "self._state" and
                  rejfact in (mf.at(n) or ())]
            ix = [n for n in g.stmt_nodes() if n.kind == "stmt" and isinstance(n.ast, ast.AugAssign) and norm.text(n.ast.target) == "self._index" and
                  rejfact in (mf.at(n) or ())]
            ctx.ob("reject: state stored", len(st) == 1 and is_rej_value(st[0].ast.value) and g.always_preceded_by(r, lambda x: x is st[0]), "reject state not persisted", fn.loc(r.ast))
            ctx.ob("reject: total index advanced by the offending position", len(ix) == 1 and norm.text(ix[0].ast.value) == CUR and g.always_preceded_by(r, lambda x: x is ix[0]), "total index update changed", fn.loc(r.ast))
        else:
            acc_txt = {f"{SV} == UTF8_ACCEPT", f"UTF8_ACCEPT == {SV}"}
            ok = len(vals) == 4 and vals[0] == "True" and vals[1] in acc_txt and vals[2] in (LV, f"len({CH})") and vals[3] == "self._index"
            ctx.ob("normal exit: returns (True, state == ACCEPT, len, total)", ok, f"returns {vals}", fn.loc(r.ast))
            st = [n for n in g.stmt_nodes() if n.kind == "stmt" and isinstance(n.ast, ast.Assign) and norm.text(n.ast.targets[0]) == "self._state" and n.lineno > inc[0].lineno]
            ix = [n for n in g.stmt_nodes() if n.kind == "stmt" and isinstance(n.ast, ast.AugAssign) and norm.text(n.ast.target) == "self._index" and n.lineno > inc[0].lineno]
            ctx.ob("normal exit: state stored", len(st) == 1 and norm.text(st[0].ast.value) == SV and g.always_preceded_by(r, lambda x: x is st[0]), "state not persisted", fn.loc(r.ast))
            ctx.ob("normal exit: total index advanced by the chunk length", len(ix) == 1 and norm.text(ix[0].ast.value) in (LV, f"len({CH})"), "total index update changed", fn.loc(r.ast))
    starts = [v for v in local_assignments(fn, CUR) if v is not None]
    loop_ok = any(n.kind == "test" and norm.atoms(n.ast, True, res) in ([("lt", ("e", CUR), ("e", LV), True)], [("lt", ("e", CUR), ("e", f"len({CH})"), True)]) for n in g.stmt_nodes())
    ctx.ob("l = len(chunk), i starts at 0, loop while i < l", any(isinstance(v, ast.Constant) and v.value == 0 for v in starts) and loop_ok, "loop bounds changed", fn.loc())
    # nothing else persists between calls
    stores = {norm.text(s_.targets[0]) if isinstance(s_, ast.Assign) else norm.text(s_.target) for s_ in walk_no_defs(fn.node) if isinstance(s_, (ast.Assign, ast.AugAssign)) and
              is_self_attr(s_.targets[0] if isinstance(s_, ast.Assign) else s_.target)}
    ctx.ob("only _state and _index persist between calls", stores == {"self._state", "self._index"}, f"persisted: {sorted(stores)}", fn.loc())


# ---------------------------------------------------------------------------------------------------
def _c_eval(node, env, mask, n):
    """Vectorised evaluation of the macro-expanded C if-chain; env maps names to int arrays; assignments under mask."""
    from pycparser import c_ast

    def ex(e):
        if isinstance(e, c_ast.Constant):
            return np.full(n, int(e.value.rstrip("uUlL"), 0), dtype=np.int64)
        if isinstance(e, c_ast.ID):
            if e.name not in env:
                raise AnalysisError(f"C transition reads {e.name}")
            return env[e.name]
        if isinstance(e, c_ast.BinaryOp):
            l, r = ex(e.left), ex(e.right)
            f = {"==": np.equal, "!=": np.not_equal, ">=": np.greater_equal, "<=": np.less_equal, ">": np.greater, "<": np.less,
                 "&&": lambda a, b: (a != 0) & (b != 0), "||": lambda a, b: (a != 0) | (b != 0)}.get(e.op)
            if f is None:
                raise AnalysisError(f"C operator {e.op} in DFA_TRANSITION")
            return f(l, r).astype(np.int64)
        raise AnalysisError(f"C expression {type(e).__name__} in DFA_TRANSITION")

    if node is None or isinstance(node, c_ast.EmptyStatement):
        return
    if isinstance(node, c_ast.Compound):
        for it in node.block_items or []:
            _c_eval(it, env, mask, n)
        return
    if isinstance(node, c_ast.If):
        c = ex(node.cond) != 0
        _c_eval(node.iftrue, env, mask & c, n)
        if node.iffalse is not None:
            _c_eval(node.iffalse, env, mask & ~c, n)
        return
    if isinstance(node, c_ast.Assignment) and node.op == "=" and isinstance(node.lvalue, c_ast.ID):
        env[node.lvalue.name] = np.where(mask, ex(node.rvalue), env[node.lvalue.name])
        return
    raise AnalysisError(f"C statement {type(node).__name__} in DFA_TRANSITION")


def rule_c(ctx):
    from pycparser import c_ast, c_generator
    ctx.rule("C09.2-c-table-and-unrolled-dfa")
    gen = c_generator.CGenerator()
    m, T, ACC, REJ = _py_table(ctx)
    path = os.path.join(ctx.program.src, "autobahn", "nvx", "_utf8validator.c")
    rel = "src/autobahn/nvx/_utf8validator.c"
    worlds = [({}, "scalar"), ({"__SSE2__": 1}, "SSE2"), ({"__SSE2__": 1, "__SSE4_1__": 1}, "SSE4.1")]
    for world, wname in worlds:
        a, src, objs, funcs = cfront.parse_c(path, world)
        fs = cfront.functions(a)
        # table literal
        tab = [n for n in a.ext if isinstance(n, c_ast.Decl) and n.name == "UTF8VALIDATOR_DFA"]
        ctx.require(len(tab) == 1 and isinstance(tab[0].init, c_ast.InitList), f"C table literal not found ({wname})")
        CT = [int(x.value.rstrip("uUlL"), 0) for x in tab[0].init.exprs]
        if wname == "scalar":
            diff = [i for i in range(min(len(CT), len(T))) if CT[i] != T[i]]
            ctx.ob("C table literal == Python table", CT == T, f"lengths {len(CT)}/{len(T)}; first differing index {diff[:1]}", rel)
        ctx.ob(f"ACCEPT/REJECT constants agree [{wname}]", objs.get("UTF8_ACCEPT") == str(ACC) and objs.get("UTF8_REJECT") == str(REJ), f"{objs.get('UTF8_ACCEPT')}/{objs.get('UTF8_REJECT')}", rel)
        # dispatcher
        class V(c_ast.NodeVisitor):
            def __init__(self):
                self.calls = []

            def visit_FuncCall(self, n):
                self.calls.append(n)
                self.generic_visit(n)

        v = V()
        ctx.require("nvx_utf8vld_validate" in fs, "nvx_utf8vld_validate missing")
        v.visit(fs["nvx_utf8vld_validate"])
        reach = sorted({c.name.name for c in v.calls})
        checked = {"_nvx_utf8vld_validate_table", "_nvx_utf8vld_validate_unrolled"}
        ctx.ob(f"dispatcher reaches only checked implementations [{wname}]", set(reach) <= checked and bool(reach), f"reaches {reach}", rel)
        for c in v.calls:
            ctx.ob(f"dispatcher passes (utf8vld, data, length) through to {c.name.name} [{wname}]", [gen.visit(x) for x in c.args.exprs] == ["utf8vld", "data", "length"], "arguments changed", rel)
        for fname in reach:
            if fname not in fs or fname not in checked:
                continue
            f = fs[fname]
            ctx.analysed(f"{rel}:{fname}[{wname}]")
            loops = [s for s in f.body.block_items if isinstance(s, c_ast.While)]
            ctx.require(len(loops) == 1, f"{fname}: while loop not found")
            W = loops[0]
            body = W.stmt.block_items
            # --- transition relation ---
            nst = 16
            S, B = np.meshgrid(np.arange(nst), np.arange(256), indexing="ij")
            S, B = S.ravel(), B.ravel()
            if fname.endswith("_table"):
                st = [s for s in body if isinstance(s, c_ast.Assignment) and gen.visit(s.lvalue) == "state"]
                ctx.require(len(st) == 1, f"{fname}: table step not found")
                txt = gen.visit(st[0].rvalue).replace(" ", "")
                CTa = np.array(CT + [REJ] * 0, dtype=np.int64)
                # evaluate UTF8VALIDATOR_DFA[256 + state * 16 + UTF8VALIDATOR_DFA[data[i]]] structurally
                r = st[0].rvalue
                ok = isinstance(r, c_ast.ArrayRef) and gen.visit(r.name) == "UTF8VALIDATOR_DFA"
                ctx.require(ok, f"{fname}: step is not a table lookup")

                def ev(e):
                    if isinstance(e, c_ast.Constant):
                        return int(e.value, 0)
                    if isinstance(e, c_ast.ID) and e.name == "state":
                        return S
                    if isinstance(e, c_ast.BinaryOp) and e.op in ("+", "*", "<<", "|"):
                        l, rr = ev(e.left), ev(e.right)
                        return {"+": lambda x, y: x + y, "*": lambda x, y: x * y, "<<": lambda x, y: x << y, "|": lambda x, y: x | y}[e.op](l, rr)
                    if isinstance(e, c_ast.ArrayRef) and gen.visit(e.name) == "UTF8VALIDATOR_DFA":
                        inner = gen.visit(e.subscript).replace(" ", "")
                        if inner == "data[i]":
                            return CTa[B]
                        return CTa[np.clip(ev(e.subscript), 0, len(CT) - 1)]
                    raise AnalysisError(f"{fname}: table index expression {gen.visit(e)} not modelled")

                I = ev(r.subscript)
                sub = S < (len(CT) - 256) // 16
                ctx.ob(f"{fname}[{wname}]: index inside the table", bool(np.all((I[sub] >= 0) & (I[sub] < len(CT)))), "index out of range", f"{rel}:{st[0].coord.line}")
                NXT = CTa[np.clip(I, 0, len(CT) - 1)].reshape(nst, 256)
            else:
                decl = [s for s in body if isinstance(s, c_ast.Decl) and s.name == "octet"]
                ok = len(decl) == 1 and gen.visit(decl[0].init).replace(" ", "") == "data[i]"
                ctx.ob(f"{fname}[{wname}]: octet = data[i]", ok, "octet source changed", rel)
                ifs = [s for s in body if isinstance(s, c_ast.If)]
                ctx.require(len(ifs) >= 2, f"{fname}: macro-expanded transition not found")
                env = {"state": S.copy(), "octet": B.copy()}
                _c_eval(ifs[0], env, np.ones(len(S), dtype=bool), len(S))
                NXT = env["state"].reshape(nst, 256)
            _dfa_compare(ctx, f"{fname}[{wname}]", lambda s, b: int(NXT[s, b]) if s < nst else REJ, ACC, REJ, nst, f"{rel}:{f.coord.line}")
            # --- bookkeeping -----------------------------------------------------------------------------
            _c_bookkeeping(ctx, fname, wname, f, W, body, REJ, ACC, rel, gen)
        for nm, want in (("nvx_utf8vld_reset", ["vld->state = 0;", "vld->current_index = 0;", "vld->total_index = 0;"]),
                         ("nvx_utf8vld_get_current_index", ["return vld->current_index;"]), ("nvx_utf8vld_get_total_index", ["return vld->total_index;"])):
            ctx.require(nm in fs, f"{nm} missing")
            t = gen.visit(fs[nm].body)
            ctx.ob(f"{nm} [{wname}]", all(w in t for w in want), f"expected statements {want}", rel)
        t = gen.visit(fs["nvx_utf8vld_new"].body)
        ctx.ob(f"nvx_utf8vld_new resets [{wname}]", "nvx_utf8vld_reset(p);" in t, "new validator not reset", rel)
    # cffi wrapper result mapping
    w = ctx.program.module("autobahn.nvx._utf8validator").classes.get("Utf8Validator")
    ctx.require(w is not None, "NVX Utf8Validator wrapper missing")
    vfn = w.methods["validate"]
    ctx.analysed(vfn)
    # the returned quad as a term over the three native calls (names of intermediate locals are irrelevant); the verdict flags are
    # evaluated over the native return codes {-1: invalid, 0: valid on a code point boundary, 1: valid inside a code point}
    from ..core.terms import TermEval, show, eval_bool, subterms
    te = TermEval(ctx.program, vfn, inline=lambda c, f: None).run()
    rets = [o for o in te.outcomes if o.kind == "return"]
    lib = ("attr", ("p", "self"), "lib")
    vld = ("attr", ("p", "self"), "_vld")
    chunk = ("p", vfn.params()[1])
    RES = ("m", lib, "nvx_utf8vld_validate", (vld, chunk, ("call", ("g", "len"), (chunk,), ())), ())
    CUR = ("m", lib, "nvx_utf8vld_get_current_index", (vld,), ())
    TOT = ("m", lib, "nvx_utf8vld_get_total_index", (vld,), ())
    okm, why = False, "result mapping changed"
    if len(rets) == 1 and rets[0].term[0] == "list" and len(rets[0].term) == 5:
        q = rets[0].term[1:]
        try:
            def flag(t, code):
                def atom(x):
                    if x[0] == "cmp" and RES in x[2:] and any(y[0] == "c" for y in x[2:]):
                        a_, b_ = [code if y == RES else y[1] for y in x[2:]]
                        return {">=": a_ >= b_, "==": a_ == b_, ">": a_ > b_, "<": a_ < b_, "<=": a_ <= b_, "!=": a_ != b_}.get(x[1])
                    return None
                return eval_bool(t, atom)
            table = [(flag(q[0], c_), flag(q[1], c_)) for c_ in (-1, 0, 1)]
            okm = table == [(False, False), (True, True), (True, False)] and q[2] == CUR and q[3] == TOT
            why = f"quad for native codes (-1, 0, 1) is {table}, indices {show(q[2])[:40]}, {show(q[3])[:40]}"
        except AnalysisError as e:
            why = str(e)
    ctx.ob("wrapper maps the native result to (valid, ends on code point, current index, total index)", okm, why, vfn.loc())
    calls = [x for o in rets for x in subterms(o.term) if x[0] == "m" and x[2] == "nvx_utf8vld_validate"]
    ctx.ob("wrapper validates the whole chunk and reads both indices", bool(calls) and all(x == RES for x in calls), f"{[show(x)[:80] for x in calls]}", vfn.loc())
    rfn = w.methods["reset"]
    ctx.ob("wrapper reset() resets the native validator", any(norm.text(c.func) == "self.lib.nvx_utf8vld_reset" for c in calls_in(rfn.node)), "changed", rfn.loc())


def _c_bookkeeping(ctx, fname, wname, f, W, body, REJ, ACC, rel, gen):
    from pycparser import c_ast
    tag = f"{fname}[{wname}]"
    items = f.body.block_items
    decls = {s.name: gen.visit(s.init) for s in items if isinstance(s, c_ast.Decl) and s.init is not None}
    ctx.ob(f"{tag}: state loaded from the object at entry", decls.get("state") == "vld->state", f"state = {decls.get('state')}", rel)
    ctx.ob(f"{tag}: cursor starts at 0", decls.get("i") == "0", f"i = {decls.get('i')}", rel)
    # loop condition conjuncts
    conj = []

    def flat(e):
        if isinstance(e, c_ast.BinaryOp) and e.op == "&&":
            flat(e.left)
            flat(e.right)
        else:
            conj.append(gen.visit(e).replace(" ", ""))

    flat(W.cond)
    ctx.ob(f"{tag}: loop runs over the chunk (i < length)", "i<length" in conj, f"loop condition {conj}", rel)
    # in-loop reject branch
    rej_ifs = [s for s in body if isinstance(s, c_ast.If) and gen.visit(s.cond).replace(" ", "") in (f"state=={REJ}", "state==UTF8_REJECT")]
    ctx.require(len(rej_ifs) == 1, f"{fname}: in-loop reject branch not found")
    R = rej_ifs[0]
    stm = [gen.visit(x).strip() for x in R.iftrue.block_items]
    want = ["vld->state = state", "vld->current_index = i", "vld->total_index += i", "return -1"]
    ctx.ob(f"{tag}: reject stores state, position of the offending byte, returns -1", [s.rstrip(";") for s in stm] == want, f"reject branch does {stm}", f"{rel}:{R.coord.line}")
    inc = [k for k, s in enumerate(body) if isinstance(s, c_ast.UnaryOp) and s.op in ("p++", "++") and gen.visit(s.expr) == "i"]
    ctx.ob(f"{tag}: cursor advanced only after the reject test", len(inc) == 1 and inc[0] > body.index(R), "i++ before the reject branch: the reported position is one past the offending byte", rel)
    # after the loop
    after = items[items.index(W) + 1:]
    txt = [gen.visit(x).strip().rstrip(";") for x in after if not isinstance(x, c_ast.If)]
    ctx.ob(f"{tag}: normal exit stores state and advances both indices by the chunk length",
           txt[:3] == ["vld->state = state", "vld->current_index = length", "vld->total_index += length"], f"exit does {txt}", rel)
    fin = [x for x in after if isinstance(x, c_ast.If)]
    ok = len(fin) == 1 and gen.visit(fin[0].cond).replace(" ", "") in (f"state=={ACC}", "state==UTF8_ACCEPT") and \
        "return 0" in gen.visit(fin[0].iftrue) and fin[0].iffalse is not None and "return 1" in gen.visit(fin[0].iffalse)
    ctx.ob(f"{tag}: returns 0 on a code point boundary, 1 inside a sequence", ok, "final return mapping changed", rel)
    # a call that starts in REJECT (a chunk fed after the verdict) must still report invalid, like the Python implementation does
    skips = [c for c in conj if c in (f"state!={REJ}", "state!=UTF8_REJECT")]
    if skips:
        handled = any(isinstance(x, c_ast.If) and gen.visit(x.cond).replace(" ", "") in (f"state=={REJ}", "state==UTF8_REJECT") and "return -1" in gen.visit(x.iftrue) for x in after)
        ctx.ob(f"{tag}: a chunk fed while already in REJECT is reported invalid", handled,
               f"loop is skipped when state == {REJ} and the function then returns 1 ('valid, inside a sequence'): after a rejecting chunk the "
               f"next chunk is reported VALID, whereas the pure-Python validator reports (False, False, 0, total) - verdict depends on chunking", f"{rel}:{W.coord.line}")
    else:
        ctx.ob(f"{tag}: a chunk fed while already in REJECT is reported invalid", True)


def rule_selection(ctx):
    ctx.rule("C09.5-implementation-selection")
    m = ctx.program.module(PYMOD)
    # the module-level `if USES_NVX: from autobahn.nvx._utf8validator import Utf8Validator else: class Utf8Validator`
    ifs = [s for s in m.tree.body if isinstance(s, ast.If) and norm.text(s.test) == "USES_NVX"]
    ctx.require(len(ifs) == 1, "USES_NVX selection not found in utf8validator.py")
    imp = [s for s in ifs[0].body if isinstance(s, ast.ImportFrom)]
    ok = len(imp) == 1 and imp[0].module == "autobahn.nvx._utf8validator" and [a.name for a in imp[0].names] == ["Utf8Validator"]
    ctx.ob("with NVX: Utf8Validator is the native wrapper", ok, "import changed", m.relpath)
    ok = any(isinstance(s, ast.ClassDef) and s.name == "Utf8Validator" for s in ifs[0].orelse)
    ctx.ob("without NVX: Utf8Validator is the pure-Python class", ok, "fallback changed", m.relpath)
    for q in ("autobahn.websocket.utf8validator.Utf8Validator", "autobahn.nvx._utf8validator.Utf8Validator"):
        c = ctx.program.cls(q)
        ctx.ob(f"{q}: reset() and validate(chunk)", {"reset", "validate"} <= set(c.methods) and len(c.methods["validate"].params()) == 2, "interface changed", c.loc())


def run(ctx):
    rule_python_dfa(ctx)
    rule_python_bookkeeping(ctx)
    rule_c(ctx)
    rule_selection(ctx)
