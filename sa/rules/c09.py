"""C09 - UTF-8 validation equals RFC 3629, incrementally and in both implementations."""
import ast
import re
import os

import numpy as np

from ..core.index import AnalysisError, walk_no_defs, calls_in, call_name
from ..core.cfg import node_calls
from ..core import norm, cfront
from ..spec import rfc3629
from .common import get_analysis, is_self_attr, stmt_key

META = {
    "explanation": "The DFA denoted by UTF8VALIDATOR_DFA under the index expression of the validate loop is extracted from the "
                   "source and compared with a recogniser generated from the RFC 3629 ABNF by exhaustive product-automaton "
                   "reachability (every transition of every reachable state on every byte; accept = on a code point boundary, "
                   "reject absorbing). The C table literal must equal the Python tuple, the C unrolled DFA_TRANSITION macro is "
                   "compiled to its transition relation over 16 x 256 (state, octet) pairs and compared the same way; index / "
                   "state bookkeeping of each reachable implementation is checked on every exit path; the dispatcher may reach "
                   "only checked implementations.",
    "exhaustive": True,
    "trusted": ["sa/spec/rfc3629.py (ABNF transcription)", "pycparser", "the compiled extension is built from the analysed .c file"],
    "assumptions": ["chunk independence follows from: the DFA state is the only datum carried between calls (checked) and positions are sums of chunk lengths (checked)"],
}

PYMOD = "autobahn.websocket.utf8validator"


def _py_table(ctx):
    m = ctx.program.module(PYMOD)
    e = m.consts.get("UTF8VALIDATOR_DFA")
    ctx.require(e is not None, "UTF8VALIDATOR_DFA not found")
    ok, v = ctx.program.try_const(e, m)
    ctx.require(ok and isinstance(v, tuple) and all(isinstance(x, int) for x in v), "UTF8VALIDATOR_DFA is not a literal tuple of ints")
    acc = ctx.program.try_const(m.consts.get("UTF8_ACCEPT"), m) if "UTF8_ACCEPT" in m.consts else (False, None)
    rej = ctx.program.try_const(m.consts.get("UTF8_REJECT"), m) if "UTF8_REJECT" in m.consts else (False, None)
    ctx.require(acc[0] and rej[0], "UTF8_ACCEPT / UTF8_REJECT constants not found")
    return m, list(v), acc[1], rej[1]


def _eval_index(expr, env):
    """Evaluate a Python index expression over numpy arrays; names/subscripts answered from env (text -> array or callable)."""
    t = norm.text(expr)
    if t in env:
        return env[t]
    if isinstance(expr, ast.Constant) and isinstance(expr.value, int):
        return expr.value
    if isinstance(expr, ast.BinOp):
        l, r = _eval_index(expr.left, env), _eval_index(expr.right, env)
        ops = {ast.Add: lambda a, b: a + b, ast.Mult: lambda a, b: a * b, ast.LShift: lambda a, b: a << b, ast.BitOr: lambda a, b: a | b,
               ast.BitAnd: lambda a, b: a & b, ast.Sub: lambda a, b: a - b}
        f = ops.get(type(expr.op))
        if f is None:
            raise AnalysisError(f"operator in DFA index expression not modelled: {t}")
        return f(l, r)
    if isinstance(expr, ast.Subscript):
        base = norm.text(expr.value)
        if base in env and callable(env[base]):
            return env[base](_eval_index(expr.slice, env))
    raise AnalysisError(f"DFA index expression reads {t}")


def _dfa_compare(ctx, name, step, accept, reject, nstates, loc):
    for b in range(256):
        if step(reject, b) != reject:
            ctx.ob(f"{name}: reject state is absorbing", False, f"from REJECT on byte 0x{b:02x} the automaton leaves to state {step(reject, b)}", loc)
            break
    else:
        ctx.ob(f"{name}: reject state is absorbing", True)
    ok, n, diff = rfc3629.equivalent(step, accept, accept, reject)
    ctx.per_rule[ctx.cur_rule][f"{name} transitions compared"] = n
    ctx.ob(f"{name}: language and code-point boundaries equal RFC 3629 (product reachability, {n} transitions)", ok,
           (f"state {diff[0]} on byte 0x{diff[1]:02x} -> {diff[2]}: {diff[3]}" if diff else ""), loc)


TABLE = "UTF8VALIDATOR_DFA_S"


def _py_roles(ctx, fn):
    """Roles in a pure-Python DFA driver, found by structure (not by local names): the step statement `<state> = TABLE[256 + ...]`
    (the table possibly through a local alias), the state variable, the byte expression (the argument of the TABLE[...] class lookup,
    inside the step or through a local holding the class)."""
    from .common import local_canon, _Subst
    import copy
    canon = local_canon(fn)

    def expand(e):
        return _Subst(canon).visit(ast.Expression(body=copy.deepcopy(e))).body
    steps = []
    for s_ in walk_no_defs(fn.node):
        if isinstance(s_, ast.Assign) and len(s_.targets) == 1 and isinstance(s_.value, ast.Subscript):
            v = expand(s_.value)
            if isinstance(v, ast.Subscript) and norm.text(v.value) == TABLE and any(isinstance(x, ast.Constant) and x.value == 256 for x in ast.walk(v.slice)):
                steps.append((s_, v))
    ctx.require(len(steps) == 1, f"{fn.qualname}: DFA step `state = TABLE[256 + ...]` not found")
    step, stepx = steps[0]
    statevar = norm.text(step.targets[0])
    inner = [x for x in ast.walk(stepx.slice) if isinstance(x, ast.Subscript) and norm.text(x.value) == TABLE]
    aliases = {}
    byte = None
    byte_ast = None
    if inner:
        byte = norm.text(inner[0].slice)
        byte_ast = inner[0].slice
    else:
        for s_ in walk_no_defs(fn.node):
            if isinstance(s_, ast.Assign) and isinstance(s_.targets[0], ast.Name) and isinstance(s_.value, ast.Subscript) and s_ is not step:
                v = expand(s_.value)
                if isinstance(v, ast.Subscript) and norm.text(v.value) == TABLE and any(isinstance(x, ast.Name) and x.id == s_.targets[0].id for x in ast.walk(stepx.slice)):
                    aliases[s_.targets[0].id] = s_
                    byte = norm.text(v.slice)
                    byte_ast = v.slice
    ctx.require(byte is not None, f"{fn.qualname}: byte class lookup not found in the DFA step")
    return {"step": step, "step_index": stepx.slice, "statevar": statevar, "byte": byte, "byte_ast": byte_ast, "class_aliases": aliases}


def _concrete_env(ctx, m, T):
    """the module's own constants as values: the literal table, and whatever simple module-level assignments derive from it (bytes(..), slices)"""
    from ..core.tiny import Tiny, Sym
    env = {"UTF8VALIDATOR_DFA": list(T)}
    assigns = sorted([st_ for st_ in walk_no_defs(m.tree) if isinstance(st_, ast.Assign) and len(st_.targets) == 1 and isinstance(st_.targets[0], ast.Name)], key=lambda x: x.lineno)
    for _ in range(3):   # definitions may build on one another
        for st_ in assigns:
            if st_.targets[0].id in env:
                continue
            try:
                t = Tiny(dict(env), default_call=lambda f_, a_, k_=None: (list(a_[0]) if f_ in ("bytes", "bytearray", "tuple", "list") and a_ and isinstance(a_[0], list) else Sym(f"<{f_}>")))
                v = t.ev(st_.value)
            except Exception:  # noqa: not derivable on the model: stays unknown (reading it is exit 2)
                continue
            if isinstance(v, (int, list)) and not isinstance(v, bool):
                env[st_.targets[0].id] = v
    return env


def _step_by_evaluation(ctx, m, T, fn, meth, nstates):
    from ..core.tiny import Tiny, Sym
    base = _concrete_env(ctx, m, T)
    body = [x for x in fn.node.body if not (isinstance(x, ast.Expr) and isinstance(x.value, ast.Constant))]
    prm = fn.params()[1]
    out = []
    try:
        for s0 in range(nstates):
            row = []
            for b in range(256):
                env = dict(base)
                env.update({"self": Sym("validator"), "self._state": s0, "self._index": 0, "self._codepoint": 0, prm: ([b] if meth == "validate" else b)})
                t = Tiny(env, default_call=lambda f_, a_, k_=None: (all(x < 128 for x in a_[0]) if f_.endswith("isascii") else Sym(f"<{f_}>")))
                r = t.run(body)
                if r[0] == "raise":
                    raise AnalysisError(f"{meth}() raises {r[1]} in state {s0} on octet {b:#04x}")
                row.append(t.env.get("self._state"))
            out.append(row)
    except AnalysisError as e:
        raise AnalysisError(f"[C09.1-python-dfa-equals-rfc3629] Utf8Validator.{meth} outside the modelled subset: {e}")
    return out


def rule_python_dfa(ctx):
    ctx.rule("C09.1-python-dfa-equals-rfc3629")
    m, T, ACC, REJ = _py_table(ctx)
    ctx.ob("table has 256 byte classes + 16-wide transition rows", len(T) >= 256 + 9 * 16 and (len(T) - 256) % 16 == 0, f"len {len(T)}", m.relpath)
    nstates = (len(T) - 256) // 16
    ctx.ob("byte classes in 0..15", all(0 <= c < 16 for c in T[:256]), "class out of range", m.relpath)
    ctx.ob("next states within the table", all(0 <= s < nstates for s in T[256:]), "transition to a state without a row", m.relpath)
    Ta = np.array(T, dtype=np.int64)
    c = m.classes.get("Utf8Validator")
    ctx.require(c is not None, "pure-Python Utf8Validator not found")
    # table alias used by the loop
    alias = m.consts.get("UTF8VALIDATOR_DFA_S")
    ctx.ob("loop table is bytes(UTF8VALIDATOR_DFA)", alias is not None and norm.text(alias) == "bytes(UTF8VALIDATOR_DFA)", "UTF8VALIDATOR_DFA_S changed", m.relpath)
    ctx.ob("all table entries fit into a byte", all(0 <= x < 256 for x in T), "entry >= 256", m.relpath)
    for meth in ("validate", "decode"):
        fn = c.methods.get(meth)
        ctx.require(fn is not None, f"Utf8Validator.{meth} missing")
        ctx.analysed(fn)
        try:
            roles = _py_roles(ctx, fn)
        except AnalysisError:
            # the step is not written as one `state = TABLE[256 + ...]` statement (hoisted tables, a derived transition view, another loop form ...):
            # the method itself is evaluated (sa.core.tiny, on the module's own tables) for every state and every octet, and the automaton it
            # realises -- the state it stores -- is compared with RFC 3629
            NXT2 = _step_by_evaluation(ctx, m, T, fn, meth, nstates)
            _dfa_compare(ctx, f"Utf8Validator.{meth}", lambda s, b: int(NXT2[s][b]), ACC, REJ, nstates, fn.loc())
            continue
        steps, statevar = [roles["step"]], roles["statevar"]
        idx = roles["step_index"]
        S, B = np.meshgrid(np.arange(nstates), np.arange(256), indexing="ij")
        env = {statevar: S, roles["byte"]: B, TABLE: lambda i: Ta[i]}
        for nm in roles["class_aliases"]:
            env[nm] = Ta[B]  # a local holding TABLE[byte]: the class of the byte
        I = _eval_index(idx, env)
        ctx.ob(f"{meth}: index expression stays inside the table", bool(np.all((I >= 0) & (I < len(T)))), "index out of range for some (state, byte)", fn.loc(steps[0]))
        NXT = Ta[np.clip(I, 0, len(T) - 1)]
        _dfa_compare(ctx, f"Utf8Validator.{meth}", lambda s, b: int(NXT[s, b]), ACC, REJ, nstates, fn.loc(steps[0]))
    rs = c.methods["reset"]
    st = {norm.text(s.targets[0]): norm.text(s.value) for s in walk_no_defs(rs.node) if isinstance(s, ast.Assign)}
    ctx.ob("reset(): state = ACCEPT, index = 0", st.get("self._state") == "UTF8_ACCEPT" and st.get("self._index") == "0", f"{st}", rs.loc())
    init = c.methods["__init__"]
    ctx.ob("__init__ resets", any(norm.text(x.func) == "self.reset" for x in calls_in(init.node)), "constructor no longer resets", init.loc())


def rule_python_bookkeeping(ctx):
    """validate() decided cell-wise.  C09.1 proves that the step statement computes the RFC 3629 automaton; the loop around it observes
    octets only through that step.  The step is therefore replaced by the automaton's quotient on four representative octets
    (A: ASCII, L: lead of a 2-octet sequence, C: continuation, X: never valid) with the states ACCEPT, REJECT and one "inside a code
    point" state, and validate() is evaluated on every chunk over {A, L, C, X} of length 0..3, every entry state and two entry offsets;
    the returned quad and the stored state/offset are compared with the specification (fold the step, stop at the first reject)."""
    import copy
    import itertools
    from ..core.tiny import Tiny, Sym, TinyRaise
    ctx.rule("C09.4-index-bookkeeping-python")
    m, T, ACC, REJ = _py_table(ctx)
    fn = m.classes["Utf8Validator"].methods["validate"]
    ctx.analysed(fn)
    try:
        roles = _py_roles(ctx, fn)
    except AnalysisError:
        roles = None   # the step is not one `state = TABLE[256 + ...]` statement: the cells below run on the module's own tables instead of the quotient
    if roles is not None:
        SV = roles["statevar"]
        ctx.ob("the validated octets are the chunk passed in", any(isinstance(x, ast.Name) and x.id == fn.params()[1] for x in ast.walk(roles["byte_ast"])),
               f"reads {roles['byte']}", fn.loc())
    concrete = _concrete_env(ctx, m, T) if roles is None else None
    # representative octets, taken from the automaton itself (real table): their classes and the quotient's transitions
    Ta = T

    def real_step(st, octet):
        return Ta[256 + (st << 4) + Ta[octet]]
    reps = {"A": 0x41, "L": 0xC3, "C": 0xA9, "X": 0xFF}
    MID = real_step(ACC, reps["L"])
    ctx.require(MID not in (ACC, REJ) and real_step(MID, reps["C"]) == ACC and real_step(ACC, reps["A"]) == ACC and real_step(ACC, reps["X"]) == REJ,
                "representative octets do not span ACCEPT / inside / REJECT in the extracted table (C09.1 reports the table)")
    body = copy.deepcopy([x for x in fn.node.body if not (isinstance(x, ast.Expr) and isinstance(x.value, ast.Constant))])
    # substitute the step (and a class-holding local, if any) by the quotient automaton
    target_line = (roles["step"].lineno, roles["step"].col_offset) if roles is not None else None
    alias_lines = {(a_.lineno, a_.col_offset): n_ for n_, a_ in roles["class_aliases"].items()} if roles is not None else {}
    for x in (ast.walk(ast.Module(body=body, type_ignores=[])) if roles is not None else ()):
        if isinstance(x, ast.Assign) and (x.lineno, x.col_offset) == target_line:
            arg = ast.Name(id=next(iter(roles["class_aliases"])), ctx=ast.Load()) if roles["class_aliases"] else copy.deepcopy(roles["byte_ast"])
            x.value = ast.fix_missing_locations(ast.copy_location(ast.Call(func=ast.Name(id="__dfa_step", ctx=ast.Load()), args=[ast.Name(id=SV, ctx=ast.Load()), arg], keywords=[]), x))
        elif isinstance(x, ast.Assign) and (x.lineno, x.col_offset) in alias_lines:
            x.value = copy.deepcopy(roles["byte_ast"])

    def step(st, tok):
        return real_step(st, reps[tok]) if st in (ACC, REJ, MID) else REJ
    # private helper functions and literal constants defined at module level or next to the class (the pure-Python validator lives in a conditional block)
    helper_defs, block_consts = {}, {}
    for blk_ in [m.tree.body] + [getattr(x, f_, []) for x in ast.walk(m.tree) if isinstance(x, (ast.If, ast.Try)) for f_ in ("body", "orelse", "finalbody")]:
        for st_ in blk_:
            if isinstance(st_, ast.FunctionDef) and st_.name.startswith("_") and not st_.name.startswith("__") and not st_.decorator_list:
                helper_defs.setdefault(st_.name, st_)
            elif isinstance(st_, ast.Assign) and len(st_.targets) == 1 and isinstance(st_.targets[0], ast.Name) and isinstance(st_.value, ast.Constant) \
                    and isinstance(st_.value.value, int) and not isinstance(st_.value.value, bool):
                block_consts.setdefault(st_.targets[0].id, st_.value.value)
    probs, cells = [], 0
    chunk_p = fn.params()[1]
    try:
        for n in range(4):
            for chunk in itertools.product("ALCX", repeat=n):
                for st0 in (ACC, MID, REJ):
                    for idx0 in (0, 5):
                        cells += 1

                        def default(f_, a_, k_=None):
                            if f_.endswith(".isascii") and not a_:
                                return all(t_ == "A" for t_ in chunk)
                            if f_ in helper_defs:
                                # a private helper function of the module (also when defined next to the class in a conditional block): its body is evaluated
                                # in place on the cell, with the module's literal constants of that block
                                for k__, v__ in block_consts.items():
                                    t.env.setdefault(k__, v__)
                                sub_env_keys = [k__ for k__ in block_consts if k__ not in ("self",)]
                                saved_ = {k__: t.env[k__] for k__ in sub_env_keys}
                                node_ = helper_defs[f_]
                                names_ = [x.arg for x in node_.args.args]
                                if len(names_) != len(a_) or node_.args.vararg or node_.args.kwarg or k_:
                                    raise AnalysisError(f"call {f_} in validate(): argument binding outside the model")
                                env_ = {k__: v__ for k__, v__ in t.env.items() if not k__.startswith("self") and k__ != chunk_p}
                                env_.update(dict(zip(names_, a_)))
                                sub_ = Tiny(env_, calls={"__dfa_step": step}, default_call=default)
                                r_ = sub_.run([x for x in node_.body if not (isinstance(x, ast.Expr) and isinstance(x.value, ast.Constant))])
                                if r_[0] != "return":
                                    raise AnalysisError(f"call {f_} in validate(): helper ends with {r_[0]}")
                                return r_[1]
                            raise AnalysisError(f"call {f_} in validate() is not modelled")
                        if roles is not None:
                            env = {"self": Sym("validator"), "self._state": st0, "self._index": idx0, chunk_p: list(chunk), "UTF8_ACCEPT": ACC, "UTF8_REJECT": REJ, TABLE: Sym("transition-table")}
                        else:
                            env = dict(concrete)
                            env.update({"self": Sym("validator"), "self._state": st0, "self._index": idx0, chunk_p: [reps[t_] for t_ in chunk], "UTF8_ACCEPT": ACC, "UTF8_REJECT": REJ})
                        t = Tiny(env, calls={"__dfa_step": step}, default_call=default)
                        r = t.run(body)
                        # specification
                        st, pos, rej = st0, 0, st0 == REJ   # REJECT is final: whatever follows (also nothing: the empty chunk) is reported invalid at once
                        for i, tok in enumerate(() if rej else chunk):
                            st = step(st, tok)
                            if st == REJ:
                                rej, pos = True, i
                                break
                        else:
                            pos = 0 if rej else n
                        want = (False, False, pos, idx0 + pos) if rej else (True, st == ACC, n, idx0 + n)
                        got = tuple(r[1]) if r[0] == "return" and isinstance(r[1], (list, tuple)) else (r[0], r[1])
                        stored = (t.env.get("self._state"), t.env.get("self._index"))
                        names = {ACC: "ACCEPT", REJ: "REJECT", MID: "inside a code point"}
                        cell = f"entry state {names[st0]}, offset {idx0}, chunk {''.join(chunk) or '(empty)'}"
                        if got != want:
                            probs.append(f"{cell}: returns {got}, RFC 3629 / incremental contract says {want}")
                        elif stored != (st, want[3]):
                            probs.append(f"{cell}: stores state {names.get(stored[0], stored[0])}, offset {stored[1]}; expected {names[st]}, {want[3]}")
        ctx.ob(f"validate(): verdict, code-point boundary, position of the first invalid octet, running offset and stored state on every chunk of the quotient automaton [{cells} cells]",
               not probs, "; ".join(probs[:2]), fn.loc())
    except AnalysisError as e:
        raise AnalysisError(f"[C09.4-index-bookkeeping-python] validate() outside the modelled subset: {e}")
    stores = {norm.text(s_.targets[0]) if isinstance(s_, ast.Assign) else norm.text(s_.target) for s_ in walk_no_defs(fn.node) if isinstance(s_, (ast.Assign, ast.AugAssign)) and
              is_self_attr(s_.targets[0] if isinstance(s_, ast.Assign) else s_.target)}
    ctx.ob("only _state and _index persist between calls", stores == {"self._state", "self._index"}, f"persisted: {sorted(stores)}", fn.loc())


# ---------------------------------------------------------------------------------------------------
def _c_eval(node, env, mask, n):
    """Vectorised evaluation of the macro-expanded C if-chain; env maps names to int arrays; assignments under mask."""
    from pycparser import c_ast

    def ex(e):
        if isinstance(e, c_ast.Constant):
            return np.full(n, int(e.value.rstrip("uUlL"), 0), dtype=np.int64)
        if isinstance(e, c_ast.ID):
            if e.name not in env:
                raise AnalysisError(f"C transition reads {e.name}")
            return env[e.name]
        if isinstance(e, c_ast.BinaryOp):
            l, r = ex(e.left), ex(e.right)
            f = {"==": np.equal, "!=": np.not_equal, ">=": np.greater_equal, "<=": np.less_equal, ">": np.greater, "<": np.less,
                 "&&": lambda a, b: (a != 0) & (b != 0), "||": lambda a, b: (a != 0) | (b != 0)}.get(e.op)
            if f is None:
                raise AnalysisError(f"C operator {e.op} in DFA_TRANSITION")
            return f(l, r).astype(np.int64)
        raise AnalysisError(f"C expression {type(e).__name__} in DFA_TRANSITION")

    if node is None or isinstance(node, c_ast.EmptyStatement):
        return
    if isinstance(node, c_ast.Compound):
        for it in node.block_items or []:
            _c_eval(it, env, mask, n)
        return
    if isinstance(node, c_ast.If):
        c = ex(node.cond) != 0
        _c_eval(node.iftrue, env, mask & c, n)
        if node.iffalse is not None:
            _c_eval(node.iffalse, env, mask & ~c, n)
        return
    if isinstance(node, c_ast.Assignment) and node.op == "=" and isinstance(node.lvalue, c_ast.ID):
        env[node.lvalue.name] = np.where(mask, ex(node.rvalue), env[node.lvalue.name])
        return
    raise AnalysisError(f"C statement {type(node).__name__} in DFA_TRANSITION")


def rule_c(ctx):
    from pycparser import c_ast, c_generator
    ctx.rule("C09.2-c-table-and-unrolled-dfa")
    gen = c_generator.CGenerator()
    m, T, ACC, REJ = _py_table(ctx)
    path = os.path.join(ctx.program.src, "autobahn", "nvx", "_utf8validator.c")
    rel = "src/autobahn/nvx/_utf8validator.c"
    worlds = [({}, "scalar"), ({"__SSE2__": 1}, "SSE2"), ({"__SSE2__": 1, "__SSE4_1__": 1}, "SSE4.1")]
    for world, wname in worlds:
        a, src, objs, funcs = cfront.parse_c(path, world)
        fs = cfront.functions(a)
        # table literal
        tab = [n for n in a.ext if isinstance(n, c_ast.Decl) and n.name == "UTF8VALIDATOR_DFA"]
        ctx.require(len(tab) == 1 and isinstance(tab[0].init, c_ast.InitList), f"C table literal not found ({wname})")
        CT = [int(x.value.rstrip("uUlL"), 0) for x in tab[0].init.exprs]
        if wname == "scalar":
            diff = [i for i in range(min(len(CT), len(T))) if CT[i] != T[i]]
            ctx.ob("C table literal == Python table", CT == T, f"lengths {len(CT)}/{len(T)}; first differing index {diff[:1]}", rel)
        ctx.ob(f"ACCEPT/REJECT constants agree [{wname}]", objs.get("UTF8_ACCEPT") == str(ACC) and objs.get("UTF8_REJECT") == str(REJ), f"{objs.get('UTF8_ACCEPT')}/{objs.get('UTF8_REJECT')}", rel)
        # dispatcher
        class V(c_ast.NodeVisitor):
            def __init__(self):
                self.calls = []

            def visit_FuncCall(self, n):
                self.calls.append(n)
                self.generic_visit(n)

        v = V()
        ctx.require("nvx_utf8vld_validate" in fs, "nvx_utf8vld_validate missing")
        v.visit(fs["nvx_utf8vld_validate"])
        reach = sorted({c.name.name for c in v.calls})
        checked = {"_nvx_utf8vld_validate_table", "_nvx_utf8vld_validate_unrolled"}
        ctx.ob(f"dispatcher reaches only checked implementations [{wname}]", set(reach) <= checked and bool(reach), f"reaches {reach}", rel)
        for c in v.calls:
            ctx.ob(f"dispatcher passes (utf8vld, data, length) through to {c.name.name} [{wname}]", [gen.visit(x) for x in c.args.exprs] == ["utf8vld", "data", "length"], "arguments changed", rel)
        for fname in reach:
            if fname not in fs or fname not in checked:
                continue
            f = fs[fname]
            ctx.analysed(f"{rel}:{fname}[{wname}]")
            loops = [s for s in f.body.block_items if isinstance(s, c_ast.While)]
            ctx.require(len(loops) == 1, f"{fname}: while loop not found")
            W = loops[0]
            body = W.stmt.block_items
            # --- transition relation ---
            nst = 16
            S, B = np.meshgrid(np.arange(nst), np.arange(256), indexing="ij")
            S, B = S.ravel(), B.ravel()
            if fname.endswith("_table"):
                st = [s for s in body if isinstance(s, c_ast.Assignment) and gen.visit(s.lvalue) == "state"]
                ctx.require(len(st) == 1, f"{fname}: table step not found")
                txt = gen.visit(st[0].rvalue).replace(" ", "")
                CTa = np.array(CT + [REJ] * 0, dtype=np.int64)
                # evaluate UTF8VALIDATOR_DFA[256 + state * 16 + UTF8VALIDATOR_DFA[data[i]]] structurally
                r = st[0].rvalue
                ok = isinstance(r, c_ast.ArrayRef) and gen.visit(r.name) == "UTF8VALIDATOR_DFA"
                ctx.require(ok, f"{fname}: step is not a table lookup")

                def ev(e):
                    if isinstance(e, c_ast.Constant):
                        return int(e.value, 0)
                    if isinstance(e, c_ast.ID) and e.name == "state":
                        return S
                    if isinstance(e, c_ast.BinaryOp) and e.op in ("+", "*", "<<", "|"):
                        l, rr = ev(e.left), ev(e.right)
                        return {"+": lambda x, y: x + y, "*": lambda x, y: x * y, "<<": lambda x, y: x << y, "|": lambda x, y: x | y}[e.op](l, rr)
                    if isinstance(e, c_ast.ArrayRef) and gen.visit(e.name) == "UTF8VALIDATOR_DFA":
                        inner = gen.visit(e.subscript).replace(" ", "")
                        if inner == "data[i]":
                            return CTa[B]
                        return CTa[np.clip(ev(e.subscript), 0, len(CT) - 1)]
                    raise AnalysisError(f"{fname}: table index expression {gen.visit(e)} not modelled")

                I = ev(r.subscript)
                sub = S < (len(CT) - 256) // 16
                ctx.ob(f"{fname}[{wname}]: index inside the table", bool(np.all((I[sub] >= 0) & (I[sub] < len(CT)))), "index out of range", f"{rel}:{st[0].coord.line}")
                NXT = CTa[np.clip(I, 0, len(CT) - 1)].reshape(nst, 256)
            else:
                decl = [s for s in body if isinstance(s, c_ast.Decl) and s.name == "octet"]
                ok = len(decl) == 1 and gen.visit(decl[0].init).replace(" ", "") == "data[i]"
                ctx.ob(f"{fname}[{wname}]: octet = data[i]", ok, "octet source changed", rel)
                ifs = [s for s in body if isinstance(s, c_ast.If)]
                ctx.require(len(ifs) >= 2, f"{fname}: macro-expanded transition not found")
                env = {"state": S.copy(), "octet": B.copy()}
                _c_eval(ifs[0], env, np.ones(len(S), dtype=bool), len(S))
                NXT = env["state"].reshape(nst, 256)
            _dfa_compare(ctx, f"{fname}[{wname}]", lambda s, b: int(NXT[s, b]) if s < nst else REJ, ACC, REJ, nst, f"{rel}:{f.coord.line}")
            # --- bookkeeping -----------------------------------------------------------------------------
            _c_bookkeeping(ctx, fname, wname, f, W, body, REJ, ACC, rel, gen)
        for nm, want in (("nvx_utf8vld_reset", ["vld->state = 0;", "vld->current_index = 0;", "vld->total_index = 0;"]),
                         ("nvx_utf8vld_get_current_index", ["return vld->current_index;"]), ("nvx_utf8vld_get_total_index", ["return vld->total_index;"])):
            ctx.require(nm in fs, f"{nm} missing")
            t = gen.visit(fs[nm].body)
            ctx.ob(f"{nm} [{wname}]", all(w in t for w in want), f"expected statements {want}", rel)
        t = gen.visit(fs["nvx_utf8vld_new"].body)
        ctx.ob(f"nvx_utf8vld_new resets [{wname}]", "nvx_utf8vld_reset(p);" in t, "new validator not reset", rel)
    # cffi wrapper result mapping
    w = ctx.program.module("autobahn.nvx._utf8validator").classes.get("Utf8Validator")
    ctx.require(w is not None, "NVX Utf8Validator wrapper missing")
    vfn = w.methods["validate"]
    ctx.analysed(vfn)
    # the returned quad as a term over the three native calls (names of intermediate locals are irrelevant); the verdict flags are
    # evaluated over the native return codes {-1: invalid, 0: valid on a code point boundary, 1: valid inside a code point}
    from ..core.terms import TermEval, show, eval_bool, subterms
    def same_class(call, f):  # private helpers of the wrapper class are part of the mapping
        if isinstance(call.func, ast.Attribute) and isinstance(call.func.value, ast.Name) and call.func.value.id == "self" and call.func.attr in w.methods:
            return w.methods[call.func.attr]
        return None
    te = TermEval(ctx.program, vfn, inline=same_class).run()
    rets = [o for o in te.outcomes if o.kind == "return"]
    lib = ("attr", ("p", "self"), "lib")
    vld = ("attr", ("p", "self"), "_vld")
    chunk = ("p", vfn.params()[1])
    RES = ("m", lib, "nvx_utf8vld_validate", (vld, chunk, ("call", ("g", "len"), (chunk,), ())), ())
    CUR = ("m", lib, "nvx_utf8vld_get_current_index", (vld,), ())
    TOT = ("m", lib, "nvx_utf8vld_get_total_index", (vld,), ())
    okm, why = False, "result mapping changed"
    if len(rets) == 1 and rets[0].term[0] == "list" and len(rets[0].term) == 5:
        q = rets[0].term[1:]
        try:
            def flag(t, code):
                def atom(x):
                    if x == RES:
                        return code != 0  # truthiness of the native return code
                    if x[0] == "cmp" and RES in x[2:] and any(y[0] == "c" for y in x[2:]):
                        a_, b_ = [code if y == RES else y[1] for y in x[2:]]
                        return {">=": a_ >= b_, "==": a_ == b_, ">": a_ > b_, "<": a_ < b_, "<=": a_ <= b_, "!=": a_ != b_}.get(x[1])
                    return None
                return eval_bool(t, atom)
            table = [(flag(q[0], c_), flag(q[1], c_)) for c_ in (-1, 0, 1)]
            okm = table == [(False, False), (True, True), (True, False)] and q[2] == CUR and q[3] == TOT
            why = f"quad for native codes (-1, 0, 1) is {table}, indices {show(q[2])[:40]}, {show(q[3])[:40]}"
        except AnalysisError as e:
            why = str(e)
    if not okm:
        # not one list of four terms over the three native calls (locals for lib / handle, a helper for the verdict pair, tuple concatenation ...):
        # the wrapper is evaluated (sa.core.tiny) against a model of the native library for the three return codes
        from ..core.tiny import Tiny, Sym, Buf
        from .common import inline_private
        try:
            table, idx_ok, order_ok = [], True, True
            tables = []
            for code, ln in [(c_, l_) for l_ in (7, 1, 0) for c_ in (-1, 0, 1)]:   # the empty chunk too: the library must be asked for every chunk
                if code == -1 and table:
                    tables.append(table)
                    table = []
                seq = []
                handle, data = Sym("native-validator"), Buf(0, ln)

                def mk(name, ret):
                    def f(*a_):
                        seq.append((name, a_))
                        return ret
                    return f
                lib = Sym("lib", methods={"nvx_utf8vld_validate": mk("validate", code), "nvx_utf8vld_get_current_index": mk("cur", 41), "nvx_utf8vld_get_total_index": mk("tot", 97)})
                env = {"self": Sym("wrapper"), "self.lib": lib, "self._vld": handle, vfn.params()[1]: data, "ffi": Sym("ffi")}
                t = Tiny(env, default_call=lambda f_, a_, k_=None: Sym(f"<{f_}>"), inline_self=lambda nm_: (w.methods[nm_].node if nm_ in w.methods and nm_ != "validate" else None),
                         opaque_globals=True, model_types=True, local_defs=True)
                r = t.run([x for x in vfn.node.body if not (isinstance(x, ast.Expr) and isinstance(x.value, ast.Constant))])
                quad = list(r[1]) if r[0] == "return" and isinstance(r[1], (list, tuple)) else None
                if quad is None or len(quad) != 4:
                    table.append(r[0])
                    continue
                table.append((quad[0], quad[1]))
                idx_ok = idx_ok and quad[2] == 41 and quad[3] == 97
                names = [n_ for n_, _ in seq]
                vcalls = [a_ for n_, a_ in seq if n_ == "validate"]
                order_ok = order_ok and names[:1] == ["validate"] and len(vcalls) == 1 and len(vcalls[0]) == 3 and vcalls[0][0] is handle and vcalls[0][1] is data and vcalls[0][2] == ln
            tables.append(table)
            okm = all(tb_ == [(False, False), (True, True), (True, False)] for tb_ in tables) and len(tables) == 3 and idx_ok and order_ok
            table = tables
            why = f"quad flags for native codes (-1, 0, 1) are {table}; indices taken from the library: {idx_ok}; whole chunk validated first: {order_ok}"
        except AnalysisError as e:
            why = f"{why}; cell evaluation: {e}"
    ctx.ob("wrapper maps the native result to (valid, ends on code point, current index, total index)", okm, why, vfn.loc())
    calls = [x for o in rets for x in subterms(o.term) if x[0] == "m" and x[2] == "nvx_utf8vld_validate"]
    ctx.ob("wrapper validates the whole chunk and reads both indices", bool(calls) and all(x == RES for x in calls), f"{[show(x)[:80] for x in calls]}", vfn.loc())
    rfn = w.methods["reset"]
    ctx.ob("wrapper reset() resets the native validator", any(norm.text(c.func) == "self.lib.nvx_utf8vld_reset" for c in calls_in(rfn.node)), "changed", rfn.loc())


def _c_bookkeeping(ctx, fname, wname, f, W, body, REJ, ACC, rel, gen):
    from pycparser import c_ast
    tag = f"{fname}[{wname}]"
    items = f.body.block_items
    decls = {s.name: gen.visit(s.init) for s in items if isinstance(s, c_ast.Decl) and s.init is not None}
    ctx.ob(f"{tag}: state loaded from the object at entry", decls.get("state") == "vld->state", f"state = {decls.get('state')}", rel)
    ctx.ob(f"{tag}: cursor starts at 0", decls.get("i") == "0", f"i = {decls.get('i')}", rel)
    # loop condition conjuncts
    conj = []

    def flat(e):
        if isinstance(e, c_ast.BinaryOp) and e.op == "&&":
            flat(e.left)
            flat(e.right)
        else:
            conj.append(gen.visit(e).replace(" ", ""))

    flat(W.cond)
    ctx.ob(f"{tag}: loop runs over the chunk (i < length)", "i<length" in conj, f"loop condition {conj}", rel)
    # in-loop reject branch
    rej_ifs = [s for s in body if isinstance(s, c_ast.If) and gen.visit(s.cond).replace(" ", "") in (f"state=={REJ}", "state==UTF8_REJECT")]
    ctx.require(len(rej_ifs) == 1, f"{fname}: in-loop reject branch not found")
    R = rej_ifs[0]
    stm = [gen.visit(x).strip() for x in R.iftrue.block_items]
    want = ["vld->state = state", "vld->current_index = i", "vld->total_index += i", "return -1"]
    ctx.ob(f"{tag}: reject stores state, position of the offending byte, returns -1", [s.rstrip(";") for s in stm] == want, f"reject branch does {stm}", f"{rel}:{R.coord.line}")
    inc = [k for k, s in enumerate(body) if isinstance(s, c_ast.UnaryOp) and s.op in ("p++", "++") and gen.visit(s.expr) == "i"]
    ctx.ob(f"{tag}: cursor advanced only after the reject test", len(inc) == 1 and inc[0] > body.index(R), "i++ before the reject branch: the reported position is one past the offending byte", rel)
    # after the loop
    after = items[items.index(W) + 1:]
    txt = [gen.visit(x).strip().rstrip(";") for x in after if not isinstance(x, c_ast.If)]
    ctx.ob(f"{tag}: normal exit stores state and advances both indices by the chunk length",
           txt[:3] == ["vld->state = state", "vld->current_index = length", "vld->total_index += length"], f"exit does {txt}", rel)
    fin = [x for x in after if isinstance(x, c_ast.If)]
    ok = len(fin) == 1 and gen.visit(fin[0].cond).replace(" ", "") in (f"state=={ACC}", "state==UTF8_ACCEPT") and \
        "return 0" in gen.visit(fin[0].iftrue) and fin[0].iffalse is not None and "return 1" in gen.visit(fin[0].iffalse)
    ctx.ob(f"{tag}: returns 0 on a code point boundary, 1 inside a sequence", ok, "final return mapping changed", rel)
    # the empty chunk: the loop is not entered, the verdict is the final mapping applied to the state the validator is in -- REJECT must stay invalid
    def final_ret(node, state):
        for _ in range(6):
            if isinstance(node, c_ast.Compound):
                its = node.block_items or []
                if len(its) != 1:
                    return None
                node = its[0]
            elif isinstance(node, c_ast.If):
                c_ = gen.visit(node.cond).replace(" ", "").replace("UTF8_ACCEPT", str(ACC)).replace("UTF8_REJECT", str(REJ))
                mt = re.fullmatch(r"\(?state(==|!=)(\d+)\)?", c_)
                if not mt:
                    return None
                hit = (state == int(mt.group(2))) == (mt.group(1) == "==")
                node = node.iftrue if hit else node.iffalse
                if node is None:
                    return None
            elif isinstance(node, c_ast.Return):
                try:
                    return int(gen.visit(node.expr).replace(" ", ""))
                except ValueError:
                    return None
            else:
                return None
        return None
    if len(fin) == 1:
        got = {nm_: final_ret(fin[0], st_) for nm_, st_ in (("ACCEPT", ACC), ("REJECT", REJ), ("inside a code point", 2))}
        ctx.ob(f"{tag}: an empty chunk is judged by the state the validator is in (0 on a boundary, 1 inside a code point, -1 once rejected) [3 cells]",
               got == {"ACCEPT": 0, "REJECT": -1, "inside a code point": 1},
               f"with no octet to read the function returns {got}: after a rejecting chunk an empty chunk is reported VALID again (whole input vs. the split "
               f"[.., b''] disagree)", f"{rel}:{fin[0].coord.line}")
    # a call that starts in REJECT (a chunk fed after the verdict) must still report invalid, like the Python implementation does
    skips = [c for c in conj if c in (f"state!={REJ}", "state!=UTF8_REJECT")]
    if skips:
        handled = any(isinstance(x, c_ast.If) and gen.visit(x.cond).replace(" ", "") in (f"state=={REJ}", "state==UTF8_REJECT") and "return -1" in gen.visit(x.iftrue) for x in after)
        ctx.ob(f"{tag}: a chunk fed while already in REJECT is reported invalid", handled,
               f"loop is skipped when state == {REJ} and the function then returns 1 ('valid, inside a sequence'): after a rejecting chunk the "
               f"next chunk is reported VALID, whereas the pure-Python validator reports (False, False, 0, total) - verdict depends on chunking", f"{rel}:{W.coord.line}")
    else:
        ctx.ob(f"{tag}: a chunk fed while already in REJECT is reported invalid", True)


def rule_selection(ctx):
    ctx.rule("C09.5-implementation-selection")
    m = ctx.program.module(PYMOD)
    # the module-level `if USES_NVX: from autobahn.nvx._utf8validator import Utf8Validator else: class Utf8Validator`
    ifs = [s for s in m.tree.body if isinstance(s, ast.If) and norm.text(s.test) == "USES_NVX"]
    ctx.require(len(ifs) == 1, "USES_NVX selection not found in utf8validator.py")
    imp = [s for s in ifs[0].body if isinstance(s, ast.ImportFrom)]
    ok = len(imp) == 1 and imp[0].module == "autobahn.nvx._utf8validator" and [a.name for a in imp[0].names] == ["Utf8Validator"]
    ctx.ob("with NVX: Utf8Validator is the native wrapper", ok, "import changed", m.relpath)
    ok = any(isinstance(s, ast.ClassDef) and s.name == "Utf8Validator" for s in ifs[0].orelse)
    ctx.ob("without NVX: Utf8Validator is the pure-Python class", ok, "fallback changed", m.relpath)
    for q in ("autobahn.websocket.utf8validator.Utf8Validator", "autobahn.nvx._utf8validator.Utf8Validator"):
        c = ctx.program.cls(q)
        ctx.ob(f"{q}: reset() and validate(chunk)", {"reset", "validate"} <= set(c.methods) and len(c.methods["validate"].params()) == 2, "interface changed", c.loc())


def run(ctx):
    rule_python_dfa(ctx)
    rule_python_bookkeeping(ctx)
    rule_c(ctx)
    rule_selection(ctx)
    ctx.floor("C09.1-python-dfa-equals-rfc3629", 10)
    ctx.floor("C09.4-index-bookkeeping-python", 2)
    ctx.floor("C09.2-c-table-and-unrolled-dfa", 90)
    ctx.floor("C09.5-implementation-selection", 4)
