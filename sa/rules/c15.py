"""C15 - Frame masking is exact XOR with the running key in every implementation."""
import ast
import os

import numpy as np

from ..core.index import AnalysisError, walk_no_defs, calls_in, call_name, kwarg
from ..core.cfg import node_calls
from ..core import norm, cfront
from ..core.csym import CSym, Aff
from .common import (WSP, get_analysis, is_self_attr, self_call, stmt_key, find_assign_nodes)

META = {
    "explanation": "Key-index analysis: for every masker implementation the key index used for the byte at offset k of a chunk "
                   "entered with pointer p is shown to be (p + k) mod 4, every byte is XORed exactly once and the pointer "
                   "advances by the chunk length. Python maskers: index expressions evaluated over the residue domain; "
                   "C maskers (scalar and SSE2): symbolic affine execution of the pycparser AST on every path (head / aligned "
                   "16-byte body / tail), regions must tile [0, len) and key indices are compared modulo 4. Mask policy of the "
                   "frame encoders / decoder by guard extraction.",
    "trusted": ["pycparser (C parsing)", "sa/core/csym.py affine interpreter", "the compiled extension is built from the analysed .c file"],
    "assumptions": ["memory-safety aspects of the aligned SIMD loads are not decided, only coverage and key arithmetic"],
}


# ------------------------------------------------------------------------------------------------
def _res_index(expr, var_map):
    """Evaluate an index expression built from names in var_map, int constants, + and & over numpy arrays."""
    if isinstance(expr, ast.Constant) and isinstance(expr.value, int):
        if expr.value >= 64:
            raise AnalysisError("index constant >= 64")
        return expr.value
    if isinstance(expr, (ast.Name, ast.Attribute)):
        t = norm.text(expr)
        if t in var_map:
            return var_map[t]
        raise AnalysisError(f"index expression reads {t}")
    if isinstance(expr, ast.BinOp) and isinstance(expr.op, (ast.Add, ast.BitAnd, ast.Mod)):
        l, r = _res_index(expr.left, var_map), _res_index(expr.right, var_map)
        if isinstance(expr.op, ast.Add):
            return l + r
        if isinstance(expr.op, ast.BitAnd):
            return l & r
        return l % r
    raise AnalysisError(f"index expression {ast.unparse(expr)} outside {{+, &, %, names, constants}}")


class _Tab:
    """Abstract key table value: kind 'simple' (T[j] = mask[j]), 'shifted' (4 rows, T[r][j] = mask[(j+r)&3]) or 'row' (one selected row)."""

    def __init__(self, kind, row=None):
        self.kind, self.row = kind, row


def _canon_process(ctx, fn):
    """process(data): the working copy and the chunk length are identified by what they are computed from and renamed back to the names the rules use"""
    from .common import recover_names
    D = fn.params()[1]
    return recover_names(ctx, fn, [
        ("payload", "def", lambda v: isinstance(v, ast.Call) and norm.text(v.func) in ("array", "bytearray") and any(isinstance(x, ast.Name) and x.id == D for a_ in v.args for x in ast.walk(a_))),
        ("dlen", "def", lambda v: isinstance(v, ast.Call) and norm.text(v.func) == "len" and len(v.args) == 1 and norm.text(v.args[0]) == D)])


def _interp_process(fn, tables, shifted_T):
    """Abstractly interpret a masker's process(data) over the grid (entry pointer p in 0..63) x (x in 0..63), where x is the loop
    index k inside the loop and the chunk length after it. Supported: straight-line assignments of int expressions / table aliases,
    one `for k in range(dlen)` loop whose body consists of constant-step induction updates, local int assignments and the XOR
    statement `payload[k] ^= <table>[index]`. Returns (key index per (p,k), byte index per (p,k), pointer after the call per (p,len))."""
    P, X = np.meshgrid(np.arange(64), np.arange(64), indexing="ij")
    env = {"self._ptr": P.copy(), "dlen": X}
    for t, kind in tables.items():
        env[t] = _Tab(kind)
    loops = [n for n in walk_no_defs(fn.node) if isinstance(n, (ast.For, ast.While))]
    if len(loops) != 1 or not isinstance(loops[0], ast.For):
        raise AnalysisError(f"{fn.qualname}: expected exactly one for-loop")
    L = loops[0]
    if not (isinstance(L.iter, ast.Call) and norm.text(L.iter.func) in ("xrange", "range") and len(L.iter.args) == 1 and isinstance(L.target, ast.Name)):
        raise AnalysisError(f"{fn.qualname}: loop is not `for k in range(n)`")
    kv = L.target.id
    res = {"key": None, "byte": None, "iter": norm.text(L.iter.args[0]), "xors": 0}

    def ev(e):
        if isinstance(e, ast.Constant) and isinstance(e.value, int) and not isinstance(e.value, bool):
            return np.full(P.shape, e.value, dtype=np.int64)
        if isinstance(e, (ast.Name, ast.Attribute)):
            t = norm.text(e)
            if t in env:
                return env[t]
            raise AnalysisError(f"{fn.qualname}: reads {t}, which the index analysis does not model")
        if isinstance(e, ast.BinOp) and isinstance(e.op, (ast.Add, ast.Sub, ast.BitAnd, ast.Mod, ast.Mult)):
            l, r = ev(e.left), ev(e.right)
            if isinstance(l, _Tab) or isinstance(r, _Tab):
                raise AnalysisError(f"{fn.qualname}: arithmetic on a key table")
            return {ast.Add: np.add, ast.Sub: np.subtract, ast.BitAnd: np.bitwise_and, ast.Mod: np.mod, ast.Mult: np.multiply}[type(e.op)](l, r)
        if isinstance(e, ast.Subscript) and not isinstance(e.slice, ast.Slice):
            b = ev(e.value)
            i = ev(e.slice)
            if isinstance(b, _Tab) and not isinstance(i, _Tab):
                if np.any((i < 0) | (i > 3)):
                    return ("oob", i)
                if b.kind == "simple":
                    return ("key", i)
                if b.kind == "shifted":
                    return _Tab("row", i)
                if b.kind == "row":
                    return ("key", shifted_T[b.row, i])
            raise AnalysisError(f"{fn.qualname}: subscript {ast.unparse(e)} not modelled")
        if isinstance(e, ast.Call) and norm.text(e.func) == "len" and len(e.args) == 1 and norm.text(e.args[0]) == "data":
            return X
        raise AnalysisError(f"{fn.qualname}: expression {ast.unparse(e)} outside the modelled subset")

    def straight(st):
        if isinstance(st, ast.Assign) and len(st.targets) == 1 and isinstance(st.targets[0], (ast.Name, ast.Attribute)):
            t = norm.text(st.targets[0])
            if t == "payload" or (isinstance(st.value, ast.Call) and norm.text(st.value.func) in ("array", "bytearray", "len") and t in ("payload", "dlen")):
                if t == "dlen":
                    env["dlen"] = X
                return
            env[t] = ev(st.value)
            return
        if isinstance(st, ast.AugAssign) and isinstance(st.target, (ast.Name, ast.Attribute)) and isinstance(st.op, (ast.Add, ast.Sub)):
            t = norm.text(st.target)
            v = ev(st.value)
            env[t] = env[t] + v if isinstance(st.op, ast.Add) else env[t] - v
            return
        if isinstance(st, (ast.Return, ast.Expr, ast.Pass, ast.Assert)):
            return
        raise AnalysisError(f"{fn.qualname}: statement `{stmt_key(st)}` outside the modelled subset")

    body = fn.node.body
    i = body.index(L) if L in body else None
    if i is None:
        raise AnalysisError(f"{fn.qualname}: loop is nested in another statement")
    for st in body[:i]:
        straight(st)
    # loop: induction variables = targets of `x += c` with constant c in the body
    ind = {}
    for st in L.body:
        if isinstance(st, ast.AugAssign) and isinstance(st.op, (ast.Add, ast.Sub)) and isinstance(st.value, ast.Constant) and isinstance(st.value.value, int):
            t = norm.text(st.target)
            if t in ind:
                raise AnalysisError(f"{fn.qualname}: {t} updated twice per iteration")
            ind[t] = st.value.value if isinstance(st.op, ast.Add) else -st.value.value
    entry = dict(env)
    env[kv] = X
    for t, c in ind.items():
        if t not in entry or isinstance(entry[t], _Tab):
            raise AnalysisError(f"{fn.qualname}: induction variable {t} has no integer value before the loop")
        env[t] = entry[t] + c * X  # value at the start of iteration k
    for st in L.body:
        if isinstance(st, ast.AugAssign) and norm.text(st.target) in ind:
            env[norm.text(st.target)] = env[norm.text(st.target)] + ind[norm.text(st.target)]
            continue
        if isinstance(st, ast.AugAssign) and isinstance(st.op, ast.BitXor) and isinstance(st.target, ast.Subscript) and norm.text(st.target.value) == "payload":
            res["xors"] += 1
            res["byte"] = ev(st.target.slice)
            res["key"] = ev(st.value)
            res["xor_stmt"] = st
            continue
        if isinstance(st, ast.Assign) and len(st.targets) == 1 and isinstance(st.targets[0], ast.Name):
            env[st.targets[0].id] = ev(st.value)
            continue
        raise AnalysisError(f"{fn.qualname}: loop statement `{stmt_key(st)}` outside the modelled subset")
    # after the loop: x now means the chunk length
    env = dict(entry)
    for t, c in ind.items():
        env[t] = entry[t] + c * X
    env.pop(kv, None)
    for st in body[i + 1:]:
        straight(st)
    res["ptr_after"] = env.get("self._ptr")
    res["P"], res["X"], res["loop"] = P, X, L
    return res


def _check_masker(ctx, cname, fn, res):
    P, X = res["P"], res["X"]
    ctx.ob(f"{cname}: loop visits offsets 0..len-1 once", res["iter"] in ("dlen", "len(data)") and res["xors"] == 1, f"iterates over range({res['iter']}), {res['xors']} XOR statements", fn.loc(res["loop"]))
    b = res["byte"]
    ctx.ob(f"{cname}: byte k of the chunk is the one XORed in iteration k", isinstance(b, np.ndarray) and bool(np.all(b == X)), "target index is not the loop index", fn.loc(res.get("xor_stmt")))
    k = res["key"]
    if isinstance(k, tuple) and k[0] == "key":
        bad = k[1] != ((P + X) & 3)
        ctx.ob(f"{cname}: key index for byte k entered with pointer p is (p + k) mod 4 [64x64 (p,k) pairs]", not np.any(bad),
               f"{int(np.sum(bad))} (p,k) pairs use the wrong key byte, e.g. p={int(P[bad][0]) if np.any(bad) else 0} k={int(X[bad][0]) if np.any(bad) else 0}", fn.loc(res.get("xor_stmt")))
    else:
        ctx.ob(f"{cname}: key index for byte k entered with pointer p is (p + k) mod 4 [64x64 (p,k) pairs]", False,
               "XOR operand is not a key-table element with an index in 0..3" + (" (index out of range)" if isinstance(k, tuple) and k[0] == "oob" else ""), fn.loc(res.get("xor_stmt")))
    pa = res["ptr_after"]
    okp = isinstance(pa, np.ndarray) and bool(np.all(pa == P + X))
    ex = ""
    if isinstance(pa, np.ndarray) and not okp:
        bad = pa != P + X
        ex = f"e.g. entered with pointer {int(P[bad][0])}, chunk of {int(X[bad][0])} octets: pointer() afterwards {int(pa[bad][0])}"
    ctx.ob(f"{cname}: pointer() after a chunk = pointer before + octets processed [64x64 (p,len) pairs]", okp,
           f"the reported offset is wrong, {ex}: the frame parser compares pointer() with the frame length, so a frame fed in several chunks never ends", fn.loc())


def rule_python_maskers(ctx):
    ctx.rule("C15.1-python-xor-index")
    m = ctx.program.module("autobahn.websocket.xormasker")
    # --- XorMaskerSimple -------------------------------------------------------------------
    c = m.classes.get("XorMaskerSimple")
    ctx.require(c is not None, "XorMaskerSimple not found")
    fn = _canon_process(ctx, c.methods["process"])
    ctx.analysed(fn)
    msk = [s for s in walk_no_defs(c.methods["__init__"].node) if isinstance(s, ast.Assign) and is_self_attr(s.targets[0], "_msk")]
    ctx.ob("XorMaskerSimple: key table is the 4 mask octets in order", len(msk) == 1 and norm.text(msk[0].value).replace('"', "'") in ("array('B', mask)", "bytes(mask)", "bytearray(mask)", "mask"), "changed", c.loc())
    # an unmodelled shape is an ANALYSIS-ERROR (checker blind), not a verdict
    res = _interp_process(fn, {"self._msk": "simple"}, None)
    _check_masker(ctx, "XorMaskerSimple", fn, res)
    rets = [s for s in walk_no_defs(fn.node) if isinstance(s, ast.Return)]
    ctx.ob("XorMaskerSimple: returns the processed copy", len(rets) == 1 and norm.text(rets[0].value) in ("payload.tobytes()", "bytes(payload)"), "changed", fn.loc())
    pay = [s for s in walk_no_defs(fn.node) if isinstance(s, ast.Assign) and norm.text(s.targets[0]) == "payload"]
    ctx.ob("XorMaskerSimple: works on a copy of all bytes of the chunk", len(pay) == 1 and norm.text(pay[0].value).replace('"', "'") in ("array('B', data)", "bytearray(data)"), "changed", fn.loc())
    # --- XorMaskerShifted1 -------------------------------------------------------------------
    c = m.classes.get("XorMaskerShifted1")
    ctx.require(c is not None, "XorMaskerShifted1 not found")
    init = c.methods["__init__"]
    ctx.analysed(init, c.methods["process"])
    # the four shifted key tables, obtained by evaluating the constructor on a symbolic mask (m0, m1, m2, m3): entry [r][j] names which
    # mask octet it holds, however the tables are filled (unrolled appends, nested loops, comprehensions of the modelled subset)
    from ..core.tiny import Tiny, Sym
    mask_syms = [Sym(f"m{i}") for i in range(4)]
    table = {}
    try:
        def default(f_, a_, k_=None):
            if f_ == "array":
                return list(a_[1]) if len(a_) > 1 and isinstance(a_[1], list) else []
            if f_ == "len":
                return len(a_[0])
            return Sym(f"<{f_}>")
        t = Tiny({init.params()[1]: mask_syms, "self": Sym("masker")}, default_call=default)
        t.run([x for x in init.node.body if not (isinstance(x, ast.Expr) and isinstance(x.value, ast.Constant))])
        arr = t.env.get("self._mskarray") or t.env["self"].attrs.get("_mskarray")
        if isinstance(arr, list) and len(arr) == 4 and all(isinstance(r_, list) and len(r_) == 4 and all(x in mask_syms for x in r_) for r_ in arr):
            for r_i, r_ in enumerate(arr):
                table[r_i] = np.array([mask_syms.index(x) for x in r_], dtype=np.int64)
    except AnalysisError as e:
        raise AnalysisError(f"[C15.1-python-xor-index] XorMaskerShifted1.__init__ outside the modelled subset: {e}")
    ctx.ob("XorMaskerShifted1: four shifted tables of four mask octets", sorted(table) == [0, 1, 2, 3], f"rows {sorted(table)}", init.loc())
    proc = _canon_process(ctx, c.methods["process"])
    if sorted(table) == [0, 1, 2, 3]:
        T = np.stack([table[r] for r in range(4)])
        res = _interp_process(proc, {"self._mskarray": "shifted"}, T)
        _check_masker(ctx, "XorMaskerShifted1", proc, res)
    # --- XorMaskerNull ---------------------------------------------------------------------------
    c = m.classes["XorMaskerNull"]
    proc = c.methods["process"]
    rets = [s for s in walk_no_defs(proc.node) if isinstance(s, ast.Return)]
    adv = [s for s in walk_no_defs(proc.node) if isinstance(s, ast.AugAssign) and is_self_attr(s.target, "_ptr")]
    ctx.ob("XorMaskerNull: passes data through and counts its length", len(rets) == 1 and norm.text(rets[0].value) == "data" and len(adv) == 1 and norm.text(adv[0].value) == "len(data)",
           "null masker changed", proc.loc())
    for cn in ("XorMaskerNull", "XorMaskerSimple", "XorMaskerShifted1"):
        cc = m.classes[cn]
        r = [s for s in walk_no_defs(cc.methods["pointer"].node) if isinstance(s, ast.Return)]
        z = [s for s in walk_no_defs(cc.methods["reset"].node) if isinstance(s, ast.Assign)]
        ctx.ob(f"{cn}: pointer() reports _ptr, reset() zeroes it", len(r) == 1 and norm.text(r[0].value) == "self._ptr" and len(z) == 1 and norm.text(z[0].value) == "0", "changed", cc.loc())
        zi = [s for s in walk_no_defs(cc.methods["__init__"].node) if isinstance(s, ast.Assign) and is_self_attr(s.targets[0], "_ptr")]
        ctx.ob(f"{cn}: starts at offset 0", len(zi) == 1 and norm.text(zi[0].value) == "0", "changed", cc.loc())


# ------------------------------------------------------------------------------------------------
def _subst_all(a, zeros):
    for z in zeros:
        # z == 0: solve for a symbol with coefficient +-1
        for s, k in z.t.items():
            if k in (1, -1):
                rest = Aff(z.c, {x: v for x, v in z.t.items() if x != s})
                a = a.subst(s, rest * (-1 if k == 1 else 1))
                break
    return a


def _verify_c_paths(ctx, name, paths, loc):
    ptr0, data0, ln = Aff.sym("ptr0"), Aff.sym("data0"), Aff.sym("len")
    jsym = Aff.sym("@j")
    for pi, p in enumerate(paths):
        tag = f"{name} path[{', '.join(('' if pol else '!') + c for c, pol in p.conds) or 'straight'}]"
        zeros = [e[1] for e in p.effects if e[0] == "zero"]
        # facts `V < c` (from a false `V >= c`) make the quotient symbol (V)/c vanish
        for e in p.effects:
            if e[0] == "cmp" and e[3].is_const():
                less = (e[1] == ">=" and not e[4]) or (e[1] == "<" and e[4])
                if less:
                    for d in range(e[3].c, 4 * e[3].c + 1):
                        zeros.append(Aff.sym(f"({e[2]})/{d}"))
        off = Aff(0)
        stored = None
        okpath = True
        why = ""
        for e in p.effects:
            if e[0] in ("zero", "cmp"):
                continue
            if stored is not None:
                okpath, why = False, "effects after the pointer write-back"
                break
            if e[0] == "loop":
                N, inner = e[1], e[2]
                if inner[0] == "xor":
                    addr, key = inner[1], inner[2]
                    stride = addr.t.get("@j", 0)
                    start = addr.subst("@j", 0)
                    if stride != 1:
                        okpath, why = False, f"scalar loop stride {stride}"
                        break
                    if _subst_all(start - data0 - off, zeros) != Aff(0):
                        okpath, why = False, f"region starts at offset {start - data0} but {off} bytes were covered before (gap/overlap)"
                        break
                    if not (isinstance(key, tuple) and key[0] == "elem" and key[1] == "masker->mask" and isinstance(key[2], tuple) and key[2][0] == "mask" and key[2][2] == 3):
                        okpath, why = False, f"XOR operand is not masker->mask[x & 3]: {key}"
                        break
                    K = key[2][1]
                    if _subst_all(K - (ptr0 + off + jsym), zeros).mod(4) != Aff(0):
                        okpath, why = False, f"key index ({K}) & 3 differs from (ptr0 + {off} + j) mod 4"
                        break
                    off = off + N
                elif inner[0] == "vec-store":
                    addr, val = inner[1], inner[2]
                    stride = addr.t.get("@j", 0)
                    start = addr.subst("@j", 0)
                    good = isinstance(val, tuple) and val[0] == "vec-xor" and isinstance(val[1], tuple) and val[1][0] == "vec-load" and val[1][1] == addr and \
                        isinstance(val[2], tuple) and val[2][0] == "vec-key" and isinstance(val[2][1], tuple) and val[2][1][0] == "built"
                    if not good or stride != 16:
                        okpath, why = False, "SIMD loop is not load(p) ^ mask -> store(p) with 16-byte stride"
                        break
                    if _subst_all(N, zeros) != Aff(0) and val[1][2] == "_mm_load_si128":
                        # aligned load: address must be a multiple of 16 (data0 == data0 & 15 modulo 16)
                        al = _subst_all(start.subst("data0", Aff.sym("(data0)&15")), zeros).mod(16)
                        if al != Aff(0):
                            okpath, why = False, f"aligned 16-byte load at an address that is {al} modulo 16 (head does not reach the alignment boundary)"
                            break
                    built = val[2][1]
                    elem, lanes = built[1], built[2]
                    if lanes != Aff(16) or elem[0] != "elem" or elem[1] != jsym:
                        okpath, why = False, "mask vector is not 16 lanes filled in lane order"
                        break
                    key = elem[2]
                    if not (key[0] == "elem" and key[1] == "masker->mask" and key[2][0] == "mask" and key[2][2] == 3):
                        okpath, why = False, "mask vector lanes are not masker->mask[x & 3]"
                        break
                    K = key[2][1]
                    if _subst_all(start - data0 - off, zeros) != Aff(0):
                        okpath, why = False, f"SIMD region starts at offset {start - data0} but {off} bytes were covered before"
                        break
                    if _subst_all(K - (ptr0 + off + jsym), zeros).mod(4) != Aff(0):
                        okpath, why = False, f"SIMD lane key ({K}) & 3 differs from (ptr0 + {off} + lane) mod 4 (mask not rebuilt for the current offset)"
                        break
                    off = off + N * 16
                else:
                    okpath, why = False, f"unrecognised loop effect {inner[0]}"
                    break
            elif e[0] == "store" and e[1] == "masker->ptr":
                stored = e[2]
            elif e[0] in ("xor", "vec-store", "elem-store"):
                okpath, why = False, "memory write outside a recognised loop"
                break
            elif e[0] == "store":
                okpath, why = False, f"unexpected store to {e[1]}"
                break
        if okpath:
            if stored is None:
                okpath, why = False, "pointer not written back"
            elif _subst_all(off - ln, zeros) != Aff(0):
                okpath, why = False, f"covered {off} bytes instead of len"
            elif _subst_all(stored - (ptr0 + ln), zeros) != Aff(0):
                okpath, why = False, f"pointer written back as {stored} instead of ptr0 + len"
        ctx.ob(tag + ": every byte XORed once with key[(ptr + k) & 3], pointer += len", okpath, why, loc)


def rule_c_maskers(ctx):
    ctx.rule("C15.2-c-xor-index")
    path = os.path.join(ctx.program.src, "autobahn", "nvx", "_xormasker.c")
    rel = "src/autobahn/nvx/_xormasker.c"
    init = {"xormask": Aff.sym("xm"), "data": Aff.sym("data0"), "length": Aff.sym("len"), "masker->ptr": Aff.sym("ptr0")}
    for world in ({"__SSE2__": 1}, {}):
        a, src, objs, funcs = cfront.parse_c(path, world)
        fs = cfront.functions(a)
        wname = "SSE2" if world else "scalar"
        ctx.require("_nvx_xormask_process_simple" in fs and "nvx_xormask_process" in fs, f"C masker functions not found ({wname} world)")
        impls = ["_nvx_xormask_process_simple"] + (["_nvx_xormask_process_sse2"] if world else [])
        for name in impls:
            ctx.require(name in fs, f"{name} missing in {wname} world")
            paths = CSym(fs[name]).run(dict(init))
            ctx.analysed(f"{rel}:{name}[{wname}]")
            _verify_c_paths(ctx, f"{name}[{wname}]", paths, f"{rel}:{fs[name].coord.line}")
        # dispatcher reaches only verified implementations, with unchanged arguments
        from pycparser import c_ast

        class V(c_ast.NodeVisitor):
            def __init__(self):
                self.calls = []

            def visit_FuncCall(self, n):
                self.calls.append(n)
                self.generic_visit(n)

        v = V()
        v.visit(fs["nvx_xormask_process"])
        from pycparser import c_generator
        gen = c_generator.CGenerator()
        for call in v.calls:
            nm = call.name.name
            args = [gen.visit(x) for x in call.args.exprs]
            ctx.ob(f"dispatcher[{wname}] -> {nm}: verified implementation, arguments passed through", nm in impls and args == ["xormask", "data", "length"],
                   f"dispatches to {nm}({', '.join(args)})", f"{rel}:{call.coord.line}")
        ctx.ob(f"dispatcher[{wname}] has a default branch", len(v.calls) >= 2, "switch lost its cases", rel)
        # pointer()/reset()/new()
        txt = {n: gen.visit(f.body) for n, f in fs.items()}
        ctx.ob(f"nvx_xormask_pointer[{wname}] returns masker->ptr", "return masker->ptr;" in txt["nvx_xormask_pointer"], "changed", rel)
        ctx.ob(f"nvx_xormask_reset[{wname}] zeroes the pointer", "masker->ptr = 0;" in txt["nvx_xormask_reset"], "changed", rel)
        ctx.ob(f"nvx_xormask_new[{wname}] copies the 4 key octets and starts at 0", "memcpy(masker->mask, mask, 4);" in txt["nvx_xormask_new"] and "masker->ptr = 0;" in txt["nvx_xormask_new"], "changed", rel)
    # cffi wrapper
    w = ctx.program.module("autobahn.nvx._xormasker").classes.get("XorMaskerNvx")
    ctx.require(w is not None, "XorMaskerNvx wrapper missing")
    proc = w.methods["process"]
    ctx.analysed(proc)
    # as terms (local names irrelevant): a fresh buffer of len(data) octets receives data, is processed in place for len(data) octets and returned
    from ..core.terms import TermEval, show
    te = TermEval(ctx.program, proc, inline=lambda c, f: None).run()
    D = ("p", proc.params()[1])
    N = ("call", ("g", "len"), (D,), ())
    ffi, lib = ("attr", ("p", "self"), "ffi"), ("attr", ("p", "self"), "lib")
    BUF = ("m", ffi, "new", (("c", "uint8_t[]"), N), ())
    eff = [t_ for c_, t_, st_ in te.effects]
    rets = [o.term for o in te.outcomes if o.kind == "return"]
    ok = ("m", ffi, "memmove", (BUF, D, N), ()) in eff and ("m", lib, "nvx_xormask_process", (("attr", ("p", "self"), "_masker"), BUF, N), ()) in eff and \
        rets == [("call", ("g", "bytes"), (("m", ffi, "buffer", (BUF, N), ()),), ())] and \
        [i for i, t_ in enumerate(eff) if t_[0] == "m" and t_[2] == "memmove"] < [i for i, t_ in enumerate(eff) if t_[0] == "m" and t_[2] == "nvx_xormask_process"]
    ctx.ob("XorMaskerNvx.process: copies, processes and returns exactly len(data) octets", ok, f"effects {[show(x)[:70] for x in eff]} returns {[show(x)[:70] for x in rets]}", proc.loc())
    r = [s for s in walk_no_defs(w.methods["pointer"].node) if isinstance(s, ast.Return)]
    ctx.ob("XorMaskerNvx.pointer: native pointer", len(r) == 1 and norm.text(r[0].value) == "self.lib.nvx_xormask_pointer(self._masker)", "changed", w.loc())


def rule_factories(ctx):
    ctx.rule("C15.3-factory-agreement")
    an = get_analysis(ctx)
    for q in ("autobahn.websocket.xormasker.create_xor_masker", "autobahn.nvx._xormasker.create_xor_masker"):
        m, _, fnname = q.rpartition(".")
        mod = ctx.program.module(m)
        fn = mod.funcs.get(fnname)
        ctx.require(fn is not None, f"{q} not found")
        ctx.analysed(fn)
        # cell-wise over the announced length: which implementation is constructed, and with which key
        from ..core.tiny import Tiny, Sym
        probs = []
        try:
            prm = fn.params()
            for length in (None, 0, 1, 127, 128, 129, 70000):
                key = Sym("key")
                built = []

                def default(f_, a_, k_=None):
                    built.append((f_, list(a_), dict(k_ or {})))
                    return Sym(f"instance-of-{f_}")
                env = {prm[0]: key}
                if len(prm) > 1:
                    env[prm[1]] = length
                for cn_ in mod.classes:   # the implementations are first-class values too (`cls = A if .. else B; cls(key)`)
                    env[cn_] = Sym(cn_, methods={"__call__": (lambda *a_, _n=cn_, **k_: default(_n, list(a_), k_))})
                t = Tiny(env, default_call=default)
                r = t.run([x for x in fn.node.body if not (isinstance(x, ast.Expr) and isinstance(x.value, ast.Constant))])
                want = "XorMaskerSimple" if (length is None or length < 128) else "XorMaskerShifted1"
                okc = r[0] == "return" and isinstance(r[1], Sym) and r[1].name == f"instance-of-{want}" and len(built) == 1 and built[0][1][:1] == [key] and len(built[0][1]) == 1
                if not okc:
                    probs.append(f"length {length}: {r[0]} {r[1]} built {[(b_[0], b_[1]) for b_ in built]}, expected {want}(key)")
            ok = not probs
        except AnalysisError as e:
            raise AnalysisError(f"[C15.3-factory-agreement] {q} outside the modelled subset: {e}")
        ctx.ob(f"{q}: Simple below 128 octets (or unknown length), Shifted1 from 128, same key [7 cells]", ok, "; ".join(probs[:2]), fn.loc())


def rule_mask_policy(ctx):
    ctx.rule("C15.4-mask-policy")
    an = get_analysis(ctx)
    wsp = ctx.program.cls(WSP)
    # sendFrame
    fn = wsp.methods["sendFrame"]
    ctx.analysed(fn)
    # cell-wise over (explicit key given or not, role, mask options, applyMask, payload length): the frame carries the mask bit iff a key was
    # given or the role policy says so; then the 4 key octets on the wire ARE the key the payload was XORed with -- the given one, or one
    # drawn for this frame -- and the payload is passed through the masker built from that key (unless applyMask is off / nothing to mask)
    from ..core.tiny import Tiny, Sym, Buf
    import itertools

    def inl(name):
        m_ = ctx.program.lookup_method(wsp, name)
        return m_.node if (m_ is not None and name.startswith("_") and name not in ("_trigger", "_send", "_fail_connection")) else None
    body = [x for x in fn.node.body if not (isinstance(x, ast.Expr) and isinstance(x.value, ast.Constant))]
    probs, cells = [], 0
    prm = fn.params()
    try:
        for given, is_server, mcf, msf, apply_, length in itertools.product((False, True), (False, True), (True, False), (False, True), (True, False), (0, 5, 300, 70000)):
            cells += 1
            keys, sent, maskers = [], [], []

            def default(f_, a_, k_=None):
                if f_ == "struct.pack" and a_ and a_[0] in ("!I", ">I"):
                    k = Sym(f"key{len(keys)}", of=a_[1])
                    keys.append(k)
                    return k
                if f_ == "struct.pack":
                    return ("ext", a_[0], a_[1])
                if f_ == "random.getrandbits":
                    return Sym("random32", bits=a_[0])
                if f_ == "create_xor_masker":
                    mk_ = Sym("masker", key=a_[0], methods={"process": lambda d, key=a_[0]: ("masked", key, d)})
                    maskers.append(list(a_))
                    return mk_
                if f_ == "self.sendData":
                    sent.append(a_[0])
                    return None
                return Sym(f"<{f_}>")
            explicit = Sym("key-given-by-the-caller") if given else None
            payload = Buf(0, length)
            env = {"self": Sym("protocol"), "opcode": 2, "payload": payload, "fin": True, "rsv": 0, "mask": explicit, "payload_len": None, "chopsize": None, "sync": False,
                   "self.factory.isServer": is_server, "self.maskClientFrames": mcf, "self.maskServerFrames": msf, "self.applyMask": apply_, "self.logFrames": False,
                   "self.trafficStats.outgoingWebSocketFrames": 0}
            for p_ in prm[1:]:
                env.setdefault(p_, None)
            t = Tiny(env, default_call=default, inline_self=inl)
            r = t.run(body)
            want = given or (not is_server and mcf) or (is_server and msf)
            cell = (f"{'explicit key' if given else 'no key given'}, {'server' if is_server else 'client'}, maskClientFrames={mcf}, maskServerFrames={msf}, "
                    f"applyMask={apply_}, {length} payload octet(s)")
            if r[0] == "raise" or len(sent) != 1 or not (isinstance(sent[0], tuple) and sent[0][0] == "joined" and len(sent[0][1]) == 5):
                probs.append(f"{cell}: frame not written as [octet, octet, ext-length, key, payload] ({r[0]} {str(r[1])[:50]})")
                continue
            h0, h1, ext, mv, plm = sent[0][1]
            bit = isinstance(h1, tuple) and h1[0] == "octets" and bool(h1[1] & 0x80)
            if bit != want:
                probs.append(f"{cell}: mask bit {'set' if bit else 'clear'}, expected {'set' if want else 'clear'}")
                continue
            if not want:
                if not (isinstance(mv, Buf) and len(mv) == 0) or plm is not payload:
                    probs.append(f"{cell}: unmasked frame carries key octets {mv} / payload {plm}")
                continue
            used = explicit if given else (keys[0] if len(keys) == 1 else None)
            fresh = given or (isinstance(used, Sym) and isinstance(used.attrs.get("of"), Sym) and used.attrs["of"].name == "random32" and used.attrs["of"].attrs.get("bits") == 32)
            if not fresh:
                probs.append(f"{cell}: no 32-bit random key drawn for this frame")
            elif mv is not used:
                probs.append(f"{cell}: the mask bit is set but the key octets written are {mv}, expected the key {used} (the peer cannot un-mask the frame)")
            elif length > 0 and apply_:
                if not (isinstance(plm, tuple) and plm[0] == "masked" and plm[1] is used and plm[2] is payload and maskers and maskers[0][0] is used):
                    probs.append(f"{cell}: payload on the wire is {plm}, expected the payload XORed with the key on the wire")
            elif plm is not payload:
                probs.append(f"{cell}: payload on the wire is {plm}, expected the payload as given")
        ctx.ob(f"sendFrame: mask bit iff explicit key or role policy; the key octets on the wire are the key the payload is XORed with (given, or drawn per frame) [{cells} cells]",
               not probs, "; ".join(sorted(set(probs))[:2]), fn.loc())
    except AnalysisError as e:
        raise AnalysisError(f"[C15.4-mask-policy] sendFrame outside the modelled subset: {e}")
    # beginMessageFrame
    fn = wsp.methods["beginMessageFrame"]
    ctx.analysed(fn)
    g, mf, res = an.get(fn)
    # cell-wise over (role, mask options, frame position in the message, frame length, key of the previous frame): the header carries the
    # mask bit and 4 key octets iff the role policy says so, and the key is drawn anew in THIS call (never the previous frame's)
    from ..core.tiny import Tiny, Sym, Buf
    import itertools
    S_BEGIN = ctx.program.class_const(wsp, "SEND_STATE_MESSAGE_BEGIN")
    S_INSIDE = ctx.program.class_const(wsp, "SEND_STATE_INSIDE_MESSAGE")
    S_OPEN = ctx.program.class_const(wsp, "STATE_OPEN")
    probs = []
    body = [x for x in fn.node.body if not (isinstance(x, ast.Expr) and isinstance(x.value, ast.Constant))]
    try:
        for is_server, mcf, msf, sstate, length, prev in itertools.product((False, True), (True, False), (False, True), (S_BEGIN, S_INSIDE), (0, 5, 300, 70000), (None, "old")):
            keys = []
            sent = []

            def default(f_, a_, k_=None):
                if f_ == "struct.pack" and a_ and a_[0] in ("!I", ">I"):
                    k = Sym(f"key{len(keys)}", of=a_[1])
                    keys.append(k)
                    return k
                if f_ == "struct.pack":
                    return ("ext", a_[0], a_[1])
                if f_ == "random.getrandbits":
                    return Sym("random32", bits=a_[0])
                if f_ == "self.sendData":
                    sent.append(a_[0])
                    return None
                return Sym(f"<{f_}>")
            old = Sym("previous-frame-key") if prev else None
            env = {"self.state": S_OPEN, "self.send_state": sstate, fn.params()[1]: length, "self.factory.isServer": is_server, "self.maskClientFrames": mcf,
                   "self.maskServerFrames": msf, "self.send_message_frame_mask": old, "self.applyMask": True, "self.send_message_opcode": 2, "self.send_compressed": False,
                   "self.trafficStats.outgoingWebSocketFrames": 0, "WebSocketProtocol.STATE_OPEN": S_OPEN, "WebSocketProtocol.SEND_STATE_MESSAGE_BEGIN": S_BEGIN,
                   "WebSocketProtocol.SEND_STATE_INSIDE_MESSAGE": S_INSIDE,
                   "WebSocketProtocol.SEND_STATE_INSIDE_MESSAGE_FRAME": ctx.program.class_const(wsp, "SEND_STATE_INSIDE_MESSAGE_FRAME"), "int": "int"}
            t = Tiny(env, default_call=lambda f_, a_, k_=None: "int" if f_ == "type" else default(f_, a_, k_), inline_self=inl)
            r = t.run(body)
            want = (not is_server and mcf) or (is_server and msf)
            cell = f"{'server' if is_server else 'client'}, maskClientFrames={mcf}, maskServerFrames={msf}, {'first' if sstate == S_BEGIN else 'later'} frame, length {length}"
            if r[0] == "raise" or len(sent) != 1 or not (isinstance(sent[0], tuple) and sent[0][0] == "joined" and len(sent[0][1]) == 4):
                probs.append(f"{cell}: header not written as [octet, octet, ext-length, mask] ({r[0]})")
                continue
            h0, h1, ext, mv = sent[0][1]
            bit = isinstance(h1, tuple) and h1[0] == "octets" and bool(h1[1] & 0x80)
            fresh = isinstance(mv, Sym) and mv in keys and isinstance(mv.attrs.get("of"), Sym) and mv.attrs["of"].name == "random32" and mv.attrs["of"].attrs.get("bits") == 32
            if bit != want:
                probs.append(f"{cell}: mask bit {'set' if bit else 'clear'}, policy says {'mask' if want else 'do not mask'}")
            if want and not fresh:
                probs.append(f"{cell}: the frame does not carry a key drawn for this frame (carries {mv})")
            if not want and not (isinstance(mv, Buf) and len(mv) == 0):
                probs.append(f"{cell}: unmasked frame carries key octets {mv}")
        ctx.ob("beginMessageFrame: mask bit and a freshly drawn 32-bit key iff (client and maskClientFrames) or (server and maskServerFrames), for every frame of a "
               "streamed message [128 cells]", not probs, "; ".join(sorted(set(probs))[:2]), fn.loc())
    except AnalysisError as e:
        raise AnalysisError(f"[C15.4-mask-policy] beginMessageFrame outside the modelled subset: {e}")
    # prepareMessage / PreparedMessage
    pm = ctx.program.func("autobahn.websocket.protocol.WebSocketFactory.prepareMessage")
    am = [s for s in walk_no_defs(pm.node) if isinstance(s, ast.Assign) and norm.text(s.targets[0]) == "applyMask"]
    ctx.ob("prepareMessage: prepared frames are masked iff the factory is a client", len(am) == 1 and norm.text(am[0].value) == "not self.isServer", "changed", pm.loc())
    pi = ctx.program.func("autobahn.websocket.protocol.PreparedMessage.__init__")
    ctx.analysed(pi)
    # evaluated (sa.core.tiny) over (applyMask, payload length 0 / 5 / 200): what is assembled is header0, header1 with the mask bit iff applyMask,
    # the extended length, a key of 4 octets drawn for this message iff applyMask, and the payload -- passed through the masker built from THAT key and
    # the payload length when masked (an empty payload needs no masker, but the frame still carries the mask bit and the key)
    from ..core.tiny import Tiny, Sym, Buf
    joins = [c for c in calls_in(pi.node) if isinstance(c.func, ast.Attribute) and c.func.attr == "join" and c.args and isinstance(c.args[0], ast.List) and len(c.args[0].elts) == 5]
    ctx.require(len(joins) == 1, "PreparedMessage: frame assembly join not found")
    prm = pi.params()
    probs = []
    try:
        for apply_mask in (True, False):
            for ln in (0, 5, 200, 70000):   # one length per branch of the length coding
                payload = Buf(0, ln)
                keys, maskers = [], []

                def default(f_, a_, k_=None):
                    if f_ == "random.getrandbits":
                        return Sym("random32", bits=a_[0] if a_ else None)
                    if f_ == "struct.pack" and len(a_) == 2 and isinstance(a_[1], Sym) and a_[1].name == "random32":
                        kv = Sym("key-octets", of=a_[1], fmt=a_[0])
                        keys.append(kv)
                        return kv
                    if f_ == "struct.pack":
                        return Buf(900, 902)
                    if f_ == "create_xor_masker":
                        mk_ = Sym("masker", key=a_[0] if a_ else None, length=a_[1] if len(a_) > 1 else None,
                                  methods={"process": lambda x: Sym("masked", of=x)})
                        maskers.append(mk_)
                        return mk_
                    return Sym(f"<{f_}>")
                env = {"self": Sym("prepared"), prm[1]: payload, prm[2]: True, prm[3]: apply_mask, prm[4]: True}
                t = Tiny(env, default_call=default, opaque_globals=True, model_strings=True, model_types=True)
                r = t.run([x for x in pi.node.body if not (isinstance(x, ast.Expr) and isinstance(x.value, ast.Constant))], stop=lambda st_: any(x is joins[0] for x in ast.walk(st_)))
                cell = f"applyMask={apply_mask}, payload of {ln} octets"
                if r[0] != "stop":
                    probs.append(f"{cell}: frame assembly not reached ({r[0]} {str(r[1])[:40]})")
                    continue
                parts = [t.ev(x) for x in joins[0].args[0].elts]
                h1 = parts[1]
                h1v = h1[0] if isinstance(h1, bytes) and len(h1) == 1 else (h1[1] if isinstance(h1, tuple) and h1[:1] == ("octets",) else None)
                if h1v is None:
                    probs.append(f"{cell}: second header octet is {h1!r}")
                    continue
                bit = bool(h1v & 0x80)
                keyp, pay = parts[3], parts[4]
                if bit != apply_mask:
                    probs.append(f"{cell}: mask bit {'set' if bit else 'clear'}")
                elif apply_mask and not (isinstance(keyp, Sym) and keyp in keys and keyp.attrs.get("fmt") in ("!I", ">I")):
                    probs.append(f"{cell}: masked frame carries {keyp!r} where the 4 key octets belong")
                elif not apply_mask and not (isinstance(keyp, (Buf, bytes)) and len(keyp) == 0):
                    probs.append(f"{cell}: unmasked frame carries key octets {keyp!r}")
                elif apply_mask and ln > 0 and not (isinstance(pay, Sym) and pay.name == "masked" and pay.attrs.get("of") is payload and len(maskers) == 1
                                                      and maskers[0].attrs.get("key") is keyp and maskers[0].attrs.get("length") == ln):
                    probs.append(f"{cell}: payload part is {pay!r} (maskers built: {[(m_.attrs.get('key'), m_.attrs.get('length')) for m_ in maskers]}), expected the payload XORed with the frame's own key")
                elif (not apply_mask or ln == 0) and pay is not payload and not (isinstance(pay, Sym) and pay.name == "masked" and pay.attrs.get("of") is payload and apply_mask):
                    probs.append(f"{cell}: payload part is {pay!r}, expected the payload as given")
    except AnalysisError as e:
        raise AnalysisError(f"[C15.4-mask-policy] PreparedMessage.__init__ outside the modelled subset: {e}")
    ctx.ob("PreparedMessage: mask bit, key and masked payload iff applyMask (also for an empty payload, in every branch of the length coding) [8 cells]", not probs, "; ".join(probs[:2]), pi.loc())
    # receiver: unmask with the frame's own key and declared length
    pd = wsp.methods["processData"]
    g, mf, res = an.get(pd)
    mk = [(n, c) for n in g.stmt_nodes() for c in node_calls(n) if call_name(c) == "create_xor_masker"]
    ok = len(mk) == 1 and [norm.text(a) for a in mk[0][1].args] == ["frame_mask", "frame_payload_len"] and ("truth", "frame_masked", None, True) in mf.at(mk[0][0])
    fm = [n for n in g.stmt_nodes() if n.kind == "stmt" and isinstance(n.ast, ast.Assign) and norm.text(n.ast.targets[0]) == "frame_mask" and not isinstance(n.ast.value, ast.Constant)]
    ok = ok and len(fm) == 1 and norm.text(fm[0].ast.value) == "self.data[i:i + 4]" and ("truth", "frame_masked", None, True) in mf.at(fm[0])
    ctx.ob("processData: unmasker built from the frame's own 4 key octets and declared length", ok, "changed", pd.loc())
    nulls = find_assign_nodes(g, "current_frame_masker")
    ctx.ob("processData: unmasked frames use the null masker", any(norm.text(v) == "XorMaskerNull()" for n, v in nulls), "changed", pd.loc())
    # defaults
    from .common import rule_default_options
    rule_default_options(ctx, None, (("WebSocketClientFactory", "maskClientFrames", True), ("WebSocketServerFactory", "maskServerFrames", False),
                                     ("WebSocketServerFactory", "requireMaskedClientFrames", True), ("WebSocketClientFactory", "acceptMaskedServerFrames", False),
                                     ("WebSocketClientFactory", "applyMask", True), ("WebSocketServerFactory", "applyMask", True)),
                         "with nothing configured every client frame must be masked (and really XORed), no server frame, and the wrong masking refused")


def run(ctx):
    # what the application configures is what the connection uses: options handed to setProtocolOptions reach the factory attribute of their name
    from .common import rule_option_setters
    rule_option_setters(ctx, "C15.5-configured-mask-options-reach-the-factory", [('WebSocketServerFactory', 'maskServerFrames', 'bool'), ('WebSocketServerFactory', 'requireMaskedClientFrames', 'bool'), ('WebSocketServerFactory', 'applyMask', 'bool'), ('WebSocketClientFactory', 'maskClientFrames', 'bool'), ('WebSocketClientFactory', 'acceptMaskedServerFrames', 'bool'), ('WebSocketClientFactory', 'applyMask', 'bool')],
                        "the masking policy in force is then not the configured one")
    rule_python_maskers(ctx)
    rule_c_maskers(ctx)
    rule_factories(ctx)
    rule_mask_policy(ctx)
