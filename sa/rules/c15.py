"""C15 - Frame masking is exact XOR with the running key in every implementation."""
import ast
import os

import numpy as np

from ..core.index import AnalysisError, walk_no_defs, calls_in, call_name, kwarg
from ..core.cfg import node_calls
from ..core import norm, cfront
from ..core.csym import CSym, Aff
from .common import (WSP, get_analysis, is_self_attr, self_call, stmt_key, find_assign_nodes)

META = {
    "explanation": "Key-index analysis: for every masker implementation the key index used for the byte at offset k of a chunk "
                   "entered with pointer p is shown to be (p + k) mod 4, every byte is XORed exactly once and the pointer "
                   "advances by the chunk length. Python maskers: index expressions evaluated over the residue domain; "
                   "C maskers (scalar and SSE2): symbolic affine execution of the pycparser AST on every path (head / aligned "
                   "16-byte body / tail), regions must tile [0, len) and key indices are compared modulo 4. Mask policy of the "
                   "frame encoders / decoder by guard extraction.",
    "trusted": ["pycparser (C parsing)", "sa/core/csym.py affine interpreter", "the compiled extension is built from the analysed .c file"],
    "assumptions": ["memory-safety aspects of the aligned SIMD loads are not decided, only coverage and key arithmetic"],
}


# ------------------------------------------------------------------------------------------------
def _res_index(expr, var_map):
    """Evaluate an index expression built from names in var_map, int constants, + and & over numpy arrays."""
    if isinstance(expr, ast.Constant) and isinstance(expr.value, int):
        if expr.value >= 64:
            raise AnalysisError("index constant >= 64")
        return expr.value
    if isinstance(expr, (ast.Name, ast.Attribute)):
        t = norm.text(expr)
        if t in var_map:
            return var_map[t]
        raise AnalysisError(f"index expression reads {t}")
    if isinstance(expr, ast.BinOp) and isinstance(expr.op, (ast.Add, ast.BitAnd, ast.Mod)):
        l, r = _res_index(expr.left, var_map), _res_index(expr.right, var_map)
        if isinstance(expr.op, ast.Add):
            return l + r
        if isinstance(expr.op, ast.BitAnd):
            return l & r
        return l % r
    raise AnalysisError(f"index expression {ast.unparse(expr)} outside {{+, &, %, names, constants}}")


def rule_python_maskers(ctx):
    ctx.rule("C15.1-python-xor-index")
    m = ctx.program.module("autobahn.websocket.xormasker")
    P, K = np.meshgrid(np.arange(64), np.arange(64), indexing="ij")
    P, K = P.ravel(), K.ravel()
    # --- XorMaskerSimple -------------------------------------------------------------------
    c = m.classes.get("XorMaskerSimple")
    ctx.require(c is not None, "XorMaskerSimple not found")
    fn = c.methods["process"]
    ctx.analysed(fn)
    loops = [n for n in walk_no_defs(fn.node) if isinstance(n, ast.For)]
    ctx.require(len(loops) == 1, "XorMaskerSimple.process: loop not found")
    L = loops[0]
    kv = norm.text(L.target)
    ok_iter = isinstance(L.iter, ast.Call) and norm.text(L.iter.func) in ("xrange", "range") and len(L.iter.args) == 1 and norm.text(L.iter.args[0]) == "dlen"
    ctx.ob("XorMaskerSimple: loop visits offsets 0..len-1 once", ok_iter, f"iterates over {norm.text(L.iter)}", fn.loc(L))
    xors = [s for s in L.body if isinstance(s, ast.AugAssign) and isinstance(s.op, ast.BitXor)]
    incs = [s for s in L.body if isinstance(s, ast.AugAssign) and isinstance(s.op, ast.Add) and is_self_attr(s.target, "_ptr")]
    ctx.require(len(xors) == 1 and len(incs) == 1 and len(L.body) == 2, "XorMaskerSimple.process: loop body shape changed")
    x = xors[0]
    ok_t = isinstance(x.target, ast.Subscript) and norm.text(x.target.value) == "payload" and norm.text(x.target.slice) == kv
    ctx.ob("XorMaskerSimple: byte k of the chunk is the one XORed in iteration k", ok_t, f"target {norm.text(x.target)}", fn.loc(x))
    ok_v = isinstance(x.value, ast.Subscript) and norm.text(x.value.value) == "self._msk"
    ctx.require(ok_v, "XorMaskerSimple.process: XOR operand is not self._msk[...]")
    use_before_inc = L.body.index(x) < L.body.index(incs[0])
    inc = incs[0].value.value if isinstance(incs[0].value, ast.Constant) else None
    ctx.ob("XorMaskerSimple: pointer advances by exactly 1 per byte", inc == 1, f"increment {norm.text(incs[0].value)}", fn.loc(incs[0]))
    ptr_at_k = P + K * (inc or 0) + (0 if use_before_inc else (inc or 0))
    idx = _res_index(x.value.slice, {"self._ptr": ptr_at_k, kv: K})
    bad = (idx != ((P + K) & 3))
    ctx.ob("XorMaskerSimple: key index for byte k entered with pointer p is (p + k) mod 4 [64x64 residues]", not np.any(bad),
           f"{int(np.sum(bad))} (p,k) pairs use the wrong key byte, e.g. p={int(P[np.argmax(bad)])} k={int(K[np.argmax(bad)])}", fn.loc(x))
    msk = [s for s in walk_no_defs(c.methods["__init__"].node) if isinstance(s, ast.Assign) and is_self_attr(s.targets[0], "_msk")]
    ctx.ob("XorMaskerSimple: key table is the 4 mask octets in order", len(msk) == 1 and norm.text(msk[0].value).replace('"', "'") == "array('B', mask)", "changed", c.loc())
    rets = [s for s in walk_no_defs(fn.node) if isinstance(s, ast.Return)]
    ctx.ob("XorMaskerSimple: returns the processed copy", len(rets) == 1 and norm.text(rets[0].value) == "payload.tobytes()", "changed", fn.loc())
    pay = [s for s in walk_no_defs(fn.node) if isinstance(s, ast.Assign) and norm.text(s.targets[0]) == "payload"]
    dl = [s for s in walk_no_defs(fn.node) if isinstance(s, ast.Assign) and norm.text(s.targets[0]) == "dlen"]
    ctx.ob("XorMaskerSimple: works on all bytes of the chunk", len(pay) == 1 and norm.text(pay[0].value).replace('"', "'") == "array('B', data)" and
           len(dl) == 1 and norm.text(dl[0].value) == "len(data)", "changed", fn.loc())
    # --- XorMaskerShifted1 -------------------------------------------------------------------
    c = m.classes.get("XorMaskerShifted1")
    ctx.require(c is not None, "XorMaskerShifted1 not found")
    init = c.methods["__init__"]
    ctx.analysed(init, c.methods["process"])
    loops = [n for n in walk_no_defs(init.node) if isinstance(n, ast.For)]
    ctx.require(len(loops) == 1 and isinstance(loops[0].iter, ast.Call) and [norm.text(a) for a in loops[0].iter.args] == ["4"], "Shifted1.__init__: table loop not found")
    jv = norm.text(loops[0].target)
    J = np.arange(4)
    table = {}
    for s in loops[0].body:
        cc = s.value if isinstance(s, ast.Expr) else None
        ok = isinstance(cc, ast.Call) and isinstance(cc.func, ast.Attribute) and cc.func.attr == "append" and isinstance(cc.func.value, ast.Subscript) and \
            norm.text(cc.func.value.value) == "self._mskarray" and isinstance(cc.args[0], ast.Subscript) and norm.text(cc.args[0].value) == "mask"
        ctx.require(ok, f"Shifted1.__init__: unexpected table statement {stmt_key(s)}")
        row = cc.func.value.slice.value
        table[row] = _res_index(cc.args[0].slice, {jv: J}) + np.zeros(4, dtype=np.int64)
    ctx.ob("XorMaskerShifted1: four shifted tables", sorted(table) == [0, 1, 2, 3], f"rows {sorted(table)}", init.loc())
    proc = c.methods["process"]
    sel = [s for s in walk_no_defs(proc.node) if isinstance(s, ast.Assign) and norm.text(s.targets[0]) == "msk"]
    loops = [n for n in walk_no_defs(proc.node) if isinstance(n, ast.For)]
    ctx.require(len(sel) == 1 and len(loops) == 1 and isinstance(sel[0].value, ast.Subscript) and norm.text(sel[0].value.value) == "self._mskarray", "Shifted1.process shape changed")
    L = loops[0]
    kv = norm.text(L.target)
    ctx.ob("XorMaskerShifted1: loop visits offsets 0..len-1 once", isinstance(L.iter, ast.Call) and len(L.iter.args) == 1 and norm.text(L.iter.args[0]) == "dlen" and len(L.body) == 1,
           "loop changed", proc.loc(L))
    x = L.body[0]
    ok = isinstance(x, ast.AugAssign) and isinstance(x.op, ast.BitXor) and norm.text(x.target) == f"payload[{kv}]" and isinstance(x.value, ast.Subscript) and norm.text(x.value.value) == "msk"
    ctx.require(ok, "Shifted1.process: XOR statement shape changed")
    ctx.ob("XorMaskerShifted1: table selected before the loop from the entry pointer", sel[0].lineno < L.lineno and
           not any(isinstance(s, ast.AugAssign) and is_self_attr(s.target, "_ptr") and s.lineno < L.lineno for s in walk_no_defs(proc.node)), "selection order changed", proc.loc())
    if sorted(table) == [0, 1, 2, 3]:
        T = np.stack([table[r] for r in range(4)])
        row = _res_index(sel[0].value.slice, {"self._ptr": P}) + np.zeros_like(P)
        col = _res_index(x.value.slice, {kv: K}) + np.zeros_like(K)
        okr = np.all((row >= 0) & (row < 4) & (col >= 0) & (col < 4))
        if okr:
            keyidx = T[row, col]
            bad = keyidx != ((P + K) & 3)
            ctx.ob("XorMaskerShifted1: key index for byte k entered with pointer p is (p + k) mod 4 [64x64 residues]", not np.any(bad),
                   f"{int(np.sum(bad))} (p,k) pairs use the wrong key byte, e.g. p={int(P[np.argmax(bad)])} k={int(K[np.argmax(bad)])}", proc.loc(x))
        else:
            ctx.ob("XorMaskerShifted1: table indices within 0..3", False, "row/column index out of range", proc.loc())
    adv = [s for s in walk_no_defs(proc.node) if isinstance(s, ast.AugAssign) and is_self_attr(s.target, "_ptr")]
    ctx.ob("XorMaskerShifted1: pointer advances by the chunk length", len(adv) == 1 and isinstance(adv[0].op, ast.Add) and norm.text(adv[0].value) == "dlen" and adv[0].lineno > L.lineno,
           "pointer update changed", proc.loc())
    # --- XorMaskerNull ---------------------------------------------------------------------------
    c = m.classes["XorMaskerNull"]
    proc = c.methods["process"]
    rets = [s for s in walk_no_defs(proc.node) if isinstance(s, ast.Return)]
    adv = [s for s in walk_no_defs(proc.node) if isinstance(s, ast.AugAssign) and is_self_attr(s.target, "_ptr")]
    ctx.ob("XorMaskerNull: passes data through and counts its length", len(rets) == 1 and norm.text(rets[0].value) == "data" and len(adv) == 1 and norm.text(adv[0].value) == "len(data)",
           "null masker changed", proc.loc())
    for cn in ("XorMaskerNull", "XorMaskerSimple", "XorMaskerShifted1"):
        cc = m.classes[cn]
        r = [s for s in walk_no_defs(cc.methods["pointer"].node) if isinstance(s, ast.Return)]
        z = [s for s in walk_no_defs(cc.methods["reset"].node) if isinstance(s, ast.Assign)]
        ctx.ob(f"{cn}: pointer() reports _ptr, reset() zeroes it", len(r) == 1 and norm.text(r[0].value) == "self._ptr" and len(z) == 1 and norm.text(z[0].value) == "0", "changed", cc.loc())
        zi = [s for s in walk_no_defs(cc.methods["__init__"].node) if isinstance(s, ast.Assign) and is_self_attr(s.targets[0], "_ptr")]
        ctx.ob(f"{cn}: starts at offset 0", len(zi) == 1 and norm.text(zi[0].value) == "0", "changed", cc.loc())


# ------------------------------------------------------------------------------------------------
def _subst_all(a, zeros):
    for z in zeros:
        # z == 0: solve for a symbol with coefficient +-1
        for s, k in z.t.items():
            if k in (1, -1):
                rest = Aff(z.c, {x: v for x, v in z.t.items() if x != s})
                a = a.subst(s, rest * (-1 if k == 1 else 1))
                break
    return a


def _verify_c_paths(ctx, name, paths, loc):
    ptr0, data0, ln = Aff.sym("ptr0"), Aff.sym("data0"), Aff.sym("len")
    jsym = Aff.sym("@j")
    for pi, p in enumerate(paths):
        tag = f"{name} path[{', '.join(('' if pol else '!') + c for c, pol in p.conds) or 'straight'}]"
        zeros = [e[1] for e in p.effects if e[0] == "zero"]
        # facts `V < c` (from a false `V >= c`) make the quotient symbol (V)/c vanish
        for e in p.effects:
            if e[0] == "cmp" and e[3].is_const():
                less = (e[1] == ">=" and not e[4]) or (e[1] == "<" and e[4])
                if less:
                    for d in range(e[3].c, 4 * e[3].c + 1):
                        zeros.append(Aff.sym(f"({e[2]})/{d}"))
        off = Aff(0)
        stored = None
        okpath = True
        why = ""
        for e in p.effects:
            if e[0] in ("zero", "cmp"):
                continue
            if stored is not None:
                okpath, why = False, "effects after the pointer write-back"
                break
            if e[0] == "loop":
                N, inner = e[1], e[2]
                if inner[0] == "xor":
                    addr, key = inner[1], inner[2]
                    stride = addr.t.get("@j", 0)
                    start = addr.subst("@j", 0)
                    if stride != 1:
                        okpath, why = False, f"scalar loop stride {stride}"
                        break
                    if _subst_all(start - data0 - off, zeros) != Aff(0):
                        okpath, why = False, f"region starts at offset {start - data0} but {off} bytes were covered before (gap/overlap)"
                        break
                    if not (isinstance(key, tuple) and key[0] == "elem" and key[1] == "masker->mask" and isinstance(key[2], tuple) and key[2][0] == "mask" and key[2][2] == 3):
                        okpath, why = False, f"XOR operand is not masker->mask[x & 3]: {key}"
                        break
                    K = key[2][1]
                    if _subst_all(K - (ptr0 + off + jsym), zeros).mod(4) != Aff(0):
                        okpath, why = False, f"key index ({K}) & 3 differs from (ptr0 + {off} + j) mod 4"
                        break
                    off = off + N
                elif inner[0] == "vec-store":
                    addr, val = inner[1], inner[2]
                    stride = addr.t.get("@j", 0)
                    start = addr.subst("@j", 0)
                    good = isinstance(val, tuple) and val[0] == "vec-xor" and isinstance(val[1], tuple) and val[1][0] == "vec-load" and val[1][1] == addr and \
                        isinstance(val[2], tuple) and val[2][0] == "vec-key" and isinstance(val[2][1], tuple) and val[2][1][0] == "built"
                    if not good or stride != 16:
                        okpath, why = False, "SIMD loop is not load(p) ^ mask -> store(p) with 16-byte stride"
                        break
                    if _subst_all(N, zeros) != Aff(0) and val[1][2] == "_mm_load_si128":
                        # aligned load: address must be a multiple of 16 (data0 == data0 & 15 modulo 16)
                        al = _subst_all(start.subst("data0", Aff.sym("(data0)&15")), zeros).mod(16)
                        if al != Aff(0):
                            okpath, why = False, f"aligned 16-byte load at an address that is {al} modulo 16 (head does not reach the alignment boundary)"
                            break
                    built = val[2][1]
                    elem, lanes = built[1], built[2]
                    if lanes != Aff(16) or elem[0] != "elem" or elem[1] != jsym:
                        okpath, why = False, "mask vector is not 16 lanes filled in lane order"
                        break
                    key = elem[2]
                    if not (key[0] == "elem" and key[1] == "masker->mask" and key[2][0] == "mask" and key[2][2] == 3):
                        okpath, why = False, "mask vector lanes are not masker->mask[x & 3]"
                        break
                    K = key[2][1]
                    if _subst_all(start - data0 - off, zeros) != Aff(0):
                        okpath, why = False, f"SIMD region starts at offset {start - data0} but {off} bytes were covered before"
                        break
                    if _subst_all(K - (ptr0 + off + jsym), zeros).mod(4) != Aff(0):
                        okpath, why = False, f"SIMD lane key ({K}) & 3 differs from (ptr0 + {off} + lane) mod 4 (mask not rebuilt for the current offset)"
                        break
                    off = off + N * 16
                else:
                    okpath, why = False, f"unrecognised loop effect {inner[0]}"
                    break
            elif e[0] == "store" and e[1] == "masker->ptr":
                stored = e[2]
            elif e[0] in ("xor", "vec-store", "elem-store"):
                okpath, why = False, "memory write outside a recognised loop"
                break
            elif e[0] == "store":
                okpath, why = False, f"unexpected store to {e[1]}"
                break
        if okpath:
            if stored is None:
                okpath, why = False, "pointer not written back"
            elif _subst_all(off - ln, zeros) != Aff(0):
                okpath, why = False, f"covered {off} bytes instead of len"
            elif _subst_all(stored - (ptr0 + ln), zeros) != Aff(0):
                okpath, why = False, f"pointer written back as {stored} instead of ptr0 + len"
        ctx.ob(tag + ": every byte XORed once with key[(ptr + k) & 3], pointer += len", okpath, why, loc)


def rule_c_maskers(ctx):
    ctx.rule("C15.2-c-xor-index")
    path = os.path.join(ctx.program.src, "autobahn", "nvx", "_xormasker.c")
    rel = "src/autobahn/nvx/_xormasker.c"
    init = {"xormask": Aff.sym("xm"), "data": Aff.sym("data0"), "length": Aff.sym("len"), "masker->ptr": Aff.sym("ptr0")}
    for world in ({"__SSE2__": 1}, {}):
        a, src, objs, funcs = cfront.parse_c(path, world)
        fs = cfront.functions(a)
        wname = "SSE2" if world else "scalar"
        ctx.require("_nvx_xormask_process_simple" in fs and "nvx_xormask_process" in fs, f"C masker functions not found ({wname} world)")
        impls = ["_nvx_xormask_process_simple"] + (["_nvx_xormask_process_sse2"] if world else [])
        for name in impls:
            ctx.require(name in fs, f"{name} missing in {wname} world")
            paths = CSym(fs[name]).run(dict(init))
            ctx.analysed(f"{rel}:{name}[{wname}]")
            _verify_c_paths(ctx, f"{name}[{wname}]", paths, f"{rel}:{fs[name].coord.line}")
        # dispatcher reaches only verified implementations, with unchanged arguments
        from pycparser import c_ast

        class V(c_ast.NodeVisitor):
            def __init__(self):
                self.calls = []

            def visit_FuncCall(self, n):
                self.calls.append(n)
                self.generic_visit(n)

        v = V()
        v.visit(fs["nvx_xormask_process"])
        from pycparser import c_generator
        gen = c_generator.CGenerator()
        for call in v.calls:
            nm = call.name.name
            args = [gen.visit(x) for x in call.args.exprs]
            ctx.ob(f"dispatcher[{wname}] -> {nm}: verified implementation, arguments passed through", nm in impls and args == ["xormask", "data", "length"],
                   f"dispatches to {nm}({', '.join(args)})", f"{rel}:{call.coord.line}")
        ctx.ob(f"dispatcher[{wname}] has a default branch", len(v.calls) >= 2, "switch lost its cases", rel)
        # pointer()/reset()/new()
        txt = {n: gen.visit(f.body) for n, f in fs.items()}
        ctx.ob(f"nvx_xormask_pointer[{wname}] returns masker->ptr", "return masker->ptr;" in txt["nvx_xormask_pointer"], "changed", rel)
        ctx.ob(f"nvx_xormask_reset[{wname}] zeroes the pointer", "masker->ptr = 0;" in txt["nvx_xormask_reset"], "changed", rel)
        ctx.ob(f"nvx_xormask_new[{wname}] copies the 4 key octets and starts at 0", "memcpy(masker->mask, mask, 4);" in txt["nvx_xormask_new"] and "masker->ptr = 0;" in txt["nvx_xormask_new"], "changed", rel)
    # cffi wrapper
    w = ctx.program.module("autobahn.nvx._xormasker").classes.get("XorMaskerNvx")
    ctx.require(w is not None, "XorMaskerNvx wrapper missing")
    proc = w.methods["process"]
    ctx.analysed(proc)
    t = {norm.text(s.targets[0]): norm.text(s.value) for s in walk_no_defs(proc.node) if isinstance(s, ast.Assign)}
    calls = {norm.text(c.func): [norm.text(a) for a in c.args] for c in calls_in(proc.node)}
    ok = t.get("data_len") == "len(data)" and calls.get("self.ffi.memmove") == ["data_buffer", "data", "data_len"] and \
        calls.get("self.lib.nvx_xormask_process") == ["self._masker", "data_buffer", "data_len"] and calls.get("self.ffi.buffer") == ["data_buffer", "data_len"]
    ctx.ob("XorMaskerNvx.process: copies, processes and returns exactly len(data) octets", ok, f"{t} {calls}", proc.loc())
    r = [s for s in walk_no_defs(w.methods["pointer"].node) if isinstance(s, ast.Return)]
    ctx.ob("XorMaskerNvx.pointer: native pointer", len(r) == 1 and norm.text(r[0].value) == "self.lib.nvx_xormask_pointer(self._masker)", "changed", w.loc())


def rule_factories(ctx):
    ctx.rule("C15.3-factory-agreement")
    an = get_analysis(ctx)
    for q in ("autobahn.websocket.xormasker.create_xor_masker", "autobahn.nvx._xormasker.create_xor_masker"):
        m, _, fnname = q.rpartition(".")
        mod = ctx.program.module(m)
        fn = mod.funcs.get(fnname)
        ctx.require(fn is not None, f"{q} not found")
        ctx.analysed(fn)
        g, mf, res = an.get(fn)
        rets = [n for n in g.stmt_nodes() if n.kind == "stmt" and isinstance(n.ast, ast.Return)]
        ok = len(rets) == 2
        for r in rets:
            small = any(f[0] == "any" for f in mf.at(r))  # length is None or length < 128
            tests = [n for n in g.stmt_nodes() if n.kind == "test"]
            at = set(norm.atoms(tests[0].ast, False, res)) if tests else set()
            big = {("is", "length", ("c", None), False), ("lt", ("e", "length"), ("c", 128), False)} <= set(mf.at(r))
            callee = norm.text(r.ast.value.func) if isinstance(r.ast.value, ast.Call) else None
            args = [norm.text(a) for a in r.ast.value.args] if isinstance(r.ast.value, ast.Call) else None
            ok = ok and args == ["mask"] and ((callee == "XorMaskerShifted1") == big) and ((callee == "XorMaskerSimple") == (not big))
        ctx.ob(f"{q}: Simple below 128 octets (or unknown length), Shifted1 from 128, same key", ok, "threshold / selection changed", fn.loc())


def rule_mask_policy(ctx):
    ctx.rule("C15.4-mask-policy")
    an = get_analysis(ctx)
    wsp = ctx.program.cls(WSP)
    # sendFrame
    fn = wsp.methods["sendFrame"]
    ctx.analysed(fn)
    g, mf, res = an.get(fn)
    bit = [n for n in g.stmt_nodes() if n.kind == "stmt" and isinstance(n.ast, ast.AugAssign) and norm.text(n.ast.target) == "b1" and
           isinstance(n.ast.op, ast.BitOr) and norm.key(n.ast.value, res) == ("c", 128)]
    ctx.require(len(bit) == 1, "sendFrame: mask bit assignment not found")
    tests = [n for n in g.stmt_nodes() if n.kind == "test" and any(m is bit[0] for m, lab in n.succ if lab and lab[0] == "T")]
    ctx.require(len(tests) == 1, "sendFrame: mask condition not found")
    neg = set(norm.atoms(tests[0].ast, False, res))
    want_any = {("truth", "mask", None, False)}
    ok = ("truth", "mask", None, False) in neg and len([f for f in neg if f[0] == "any"]) == 2
    roles = [f for f in neg if f[0] == "any"]
    ment = [set(norm.mentions(f)) for f in roles]
    ok = ok and any({"self.factory.isServer", "self.maskClientFrames"} <= m for m in ment) and any({"self.factory.isServer", "self.maskServerFrames"} <= m for m in ment)
    # polarity of the role tests
    cond = tests[0].ast
    role_ok = isinstance(cond, ast.BoolOp) and isinstance(cond.op, ast.Or) and len(cond.values) == 3
    if role_ok:
        a1 = set(norm.atoms(cond.values[1], True, res))
        a2 = set(norm.atoms(cond.values[2], True, res))
        role_ok = a1 == {("truth", "self.factory.isServer", None, False), ("truth", "self.maskClientFrames", None, True)} and \
            a2 == {("truth", "self.factory.isServer", None, True), ("truth", "self.maskServerFrames", None, True)}
    ctx.ob("sendFrame: masked iff explicit key, or client with maskClientFrames, or server with maskServerFrames", ok and role_ok, f"condition {norm.text(cond)}", fn.loc(cond))
    keygen = [n for n in g.stmt_nodes() if n.kind == "stmt" and isinstance(n.ast, ast.Assign) and norm.text(n.ast.targets[0]) == "mask"]
    ok = len(keygen) == 1 and norm.text(keygen[0].ast.value) == "struct.pack('!I', random.getrandbits(32))" and ("truth", "mask", None, False) in mf.at(keygen[0])
    ctx.ob("sendFrame: a fresh random 32-bit key per frame when none is given", ok, "key generation changed", fn.loc())
    mk = [(n, c) for n in g.stmt_nodes() for c in node_calls(n) if call_name(c) == "create_xor_masker"]
    ok = len(mk) == 1 and [norm.text(a) for a in mk[0][1].args] == ["mask", "l"] and bit[0].id in g.reachable(g.entry) and g.always_preceded_by(mk[0][0], lambda x: x is bit[0])
    ctx.ob("sendFrame: payload masked with that key when the mask bit is set", ok, "masker creation changed", fn.loc())
    mvs = [n for n in g.stmt_nodes() if n.kind == "stmt" and isinstance(n.ast, ast.Assign) and norm.text(n.ast.targets[0]) == "mv"]
    okmv = len(mvs) == 3 and any(norm.text(n.ast.value) == "mask" and g.always_preceded_by(n, lambda x: x is bit[0]) for n in mvs)
    ctx.ob("sendFrame: generated key is emitted in the frame", okmv, "mask octets no longer written", fn.loc())
    # beginMessageFrame
    fn = wsp.methods["beginMessageFrame"]
    ctx.analysed(fn)
    g, mf, res = an.get(fn)
    ks = find_assign_nodes(g, "send_message_frame_mask")
    ok = len(ks) == 2
    for n, v in ks:
        f = mf.at(n)
        if norm.text(v) == "None":
            continue
        ok = ok and norm.text(v) == "struct.pack('!I', random.getrandbits(32))" and any(fa[0] == "any" and {"self.maskClientFrames", "self.maskServerFrames"} <= set(norm.mentions(fa)) for fa in f)
    ctx.ob("beginMessageFrame: fresh key per frame under the role policy", ok, "changed", fn.loc())
    bit = [n for n in g.stmt_nodes() if n.kind == "stmt" and isinstance(n.ast, ast.AugAssign) and norm.text(n.ast.target) == "b1" and norm.key(n.ast.value, res) == ("c", 128)]
    ctx.ob("beginMessageFrame: mask bit set iff a key was generated", len(bit) == 1 and ("truth", "self.send_message_frame_mask", None, True) in mf.at(bit[0]), "changed", fn.loc())
    # prepareMessage / PreparedMessage
    pm = ctx.program.func("autobahn.websocket.protocol.WebSocketFactory.prepareMessage")
    am = [s for s in walk_no_defs(pm.node) if isinstance(s, ast.Assign) and norm.text(s.targets[0]) == "applyMask"]
    ctx.ob("prepareMessage: prepared frames are masked iff the factory is a client", len(am) == 1 and norm.text(am[0].value) == "not self.isServer", "changed", pm.loc())
    pi = ctx.program.func("autobahn.websocket.protocol.PreparedMessage.__init__")
    ctx.analysed(pi)
    g, mf, res = an.get(pi)
    mk = [(n, c) for n in g.stmt_nodes() for c in node_calls(n) if call_name(c) == "create_xor_masker"]
    ok = len(mk) == 1 and [norm.text(a) for a in mk[0][1].args] == ["mask", "l"] and ("truth", "applyMask", None, True) in mf.at(mk[0][0])
    b1 = [n for n in g.stmt_nodes() if n.kind == "stmt" and isinstance(n.ast, ast.Assign) and norm.text(n.ast.targets[0]) == "b1"]
    okb = len(b1) == 2 and all((norm.key(n.ast.value, res) == ("c", 128)) == (norm.is_truthy_known(mf.at(n), "applyMask") is True) for n in b1)
    ctx.ob("PreparedMessage: mask bit, key and masked payload iff applyMask", ok and okb, "changed", pi.loc())
    # receiver: unmask with the frame's own key and declared length
    pd = wsp.methods["processData"]
    g, mf, res = an.get(pd)
    mk = [(n, c) for n in g.stmt_nodes() for c in node_calls(n) if call_name(c) == "create_xor_masker"]
    ok = len(mk) == 1 and [norm.text(a) for a in mk[0][1].args] == ["frame_mask", "frame_payload_len"] and ("truth", "frame_masked", None, True) in mf.at(mk[0][0])
    fm = [n for n in g.stmt_nodes() if n.kind == "stmt" and isinstance(n.ast, ast.Assign) and norm.text(n.ast.targets[0]) == "frame_mask" and not isinstance(n.ast.value, ast.Constant)]
    ok = ok and len(fm) == 1 and norm.text(fm[0].ast.value) == "self.data[i:i + 4]" and ("truth", "frame_masked", None, True) in mf.at(fm[0])
    ctx.ob("processData: unmasker built from the frame's own 4 key octets and declared length", ok, "changed", pd.loc())
    nulls = find_assign_nodes(g, "current_frame_masker")
    ctx.ob("processData: unmasked frames use the null masker", any(norm.text(v) == "XorMaskerNull()" for n, v in nulls), "changed", pd.loc())
    # defaults
    for q, attr, want in (("autobahn.websocket.protocol.WebSocketClientFactory.resetProtocolOptions", "maskClientFrames", True),
                          ("autobahn.websocket.protocol.WebSocketServerFactory.resetProtocolOptions", "maskServerFrames", False),
                          ("autobahn.websocket.protocol.WebSocketServerFactory.resetProtocolOptions", "requireMaskedClientFrames", True),
                          ("autobahn.websocket.protocol.WebSocketClientFactory.resetProtocolOptions", "acceptMaskedServerFrames", False),
                          ("autobahn.websocket.protocol.WebSocketClientFactory.resetProtocolOptions", "applyMask", True),
                          ("autobahn.websocket.protocol.WebSocketServerFactory.resetProtocolOptions", "applyMask", True)):
        f2 = ctx.program.func(q)
        st = [s for s in walk_no_defs(f2.node) if isinstance(s, ast.Assign) and is_self_attr(s.targets[0], attr)]
        ctx.ob(f"{q.split('.')[-2]} default {attr} = {want}", len(st) == 1 and isinstance(st[0].value, ast.Constant) and st[0].value.value is want,
               f"default {[norm.text(s.value) for s in st]}", f2.loc())


def run(ctx):
    rule_python_maskers(ctx)
    rule_c_maskers(ctx)
    rule_factories(ctx)
    rule_mask_policy(ctx)
