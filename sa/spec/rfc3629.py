"""Reference recogniser for UTF-8 generated from the ABNF of RFC 3629 section 4 (independent of the repository)."""

TAIL = (0x80, 0xBF)
ALTERNATIVES = [
    [(0x00, 0x7F)],  # UTF8-1
    [(0xC2, 0xDF), TAIL],  # UTF8-2
    [(0xE0, 0xE0), (0xA0, 0xBF), TAIL],  # UTF8-3
    [(0xE1, 0xEC), TAIL, TAIL],
    [(0xED, 0xED), (0x80, 0x9F), TAIL],
    [(0xEE, 0xEF), TAIL, TAIL],
    [(0xF0, 0xF0), (0x90, 0xBF), TAIL, TAIL],  # UTF8-4
    [(0xF1, 0xF3), TAIL, TAIL, TAIL],
    [(0xF4, 0xF4), (0x80, 0x8F), TAIL, TAIL],
]

BOUNDARY = frozenset({()})  # on a code point boundary (also the start state: the empty string is valid)
REJECT = frozenset()


def step(state, byte):
    """Brzozowski-style derivative on the set of pending suffixes."""
    if state == REJECT:
        return REJECT
    out = set()
    for suf in state:
        if suf == ():
            for alt in ALTERNATIVES:
                lo, hi = alt[0]
                if lo <= byte <= hi:
                    out.add(tuple(alt[1:]))
        else:
            lo, hi = suf[0]
            if lo <= byte <= hi:
                out.add(tuple(suf[1:]))
    if not out:
        return REJECT
    if () in out and len(out) > 1:
        raise AssertionError("RFC 3629 grammar is prefix-free; cannot be on a boundary and inside a sequence")
    return frozenset(out)


def equivalent(impl_step, impl_start, impl_accept, impl_reject, impl_states=None):
    """Product-automaton comparison. impl_step(s, b) -> s'. Returns (ok, transitions_compared, first_difference)."""
    seen = {(impl_start, BOUNDARY)}
    work = [(impl_start, BOUNDARY)]
    n = 0
    while work:
        s, r = work.pop()
        for b in range(256):
            s2 = impl_step(s, b)
            r2 = step(r, b)
            n += 1
            if (s2 == impl_reject) != (r2 == REJECT):
                return False, n, (s, b, s2, "implementation rejects, RFC 3629 accepts the prefix" if s2 == impl_reject else "implementation accepts a prefix RFC 3629 rejects")
            if (s2 == impl_accept) != (r2 == BOUNDARY):
                return False, n, (s, b, s2, "code-point-boundary flag differs from RFC 3629")
            if (s2, r2) not in seen:
                seen.add((s2, r2))
                work.append((s2, r2))
    # one implementation state must not be paired with two different reference states (else the pairing is not a function)
    return True, n, None
