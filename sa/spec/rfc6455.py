"""Reference data written from RFC 6455 (independent of the repository)."""
import numpy as np

GUID = b"258EAFA5-E914-47DA-95CA-C5AB0DC85B11"

# RFC 6455 7.4.1 / IANA registry: codes a peer may put in a close frame
CLOSE_CODES_MUST_ACCEPT = {1000, 1001, 1002, 1003, 1007, 1008, 1009, 1010, 1011}
# MUST NOT be set as a status code in a Close control frame by an endpoint
CLOSE_CODES_NEVER_ON_WIRE = {1004, 1005, 1006, 1015}
# assigned later by IANA (1012 service restart, 1013 try again later); 1014 is treated as unassigned by the library
CLOSE_CODES_OPTIONAL = {1012, 1013, 1014}


def close_code_valid_reference(code, allowed_1000_2999):
    """RFC 6455 7.4.2: 0-999 unused; 1000-2999 protocol-defined (only assigned ones valid);
    3000-3999 registered, 4000-4999 private (valid); >= 5000 undefined."""
    if code < 1000:
        return False
    if code <= 2999:
        return code in allowed_1000_2999
    if code <= 4999:
        return True
    return False


def header_violation_reference(b0, b1, is_server, require_masked, accept_masked, pmce, inside):
    """Vectorised RFC 6455 5.2/5.4/5.5 verdict for the first two header octets (numpy bool array: True = MUST fail)."""
    fin = (b0 & 0x80) != 0
    rsv = (b0 >> 4) & 7
    opcode = b0 & 0x0F
    masked = (b1 & 0x80) != 0
    len1 = b1 & 0x7F
    v = np.zeros(b0.shape, dtype=bool)
    # RSV bits: must be 0 unless an extension defines them; permessage-compress defines RSV1 (value 4) only
    v |= (rsv != 0) & ~(pmce & (rsv == 4))
    # masking per role (when the endpoint is configured to enforce it)
    v |= is_server & require_masked & ~masked
    v |= ~is_server & ~accept_masked & masked
    ctrl = opcode > 7
    v |= ctrl & ~fin  # control frames must not be fragmented
    v |= ctrl & (len1 > 125)  # control payload <= 125
    v |= ctrl & ~np.isin(opcode, [8, 9, 10])  # reserved control opcodes
    v |= ctrl & (opcode == 8) & (len1 == 1)  # close body, if any, starts with a 2-byte code
    v |= ctrl & pmce & (rsv == 4)  # control frames are never compressed (RFC 7692 6.1)
    data = ~ctrl
    v |= data & ~np.isin(opcode, [0, 1, 2])  # reserved data opcodes
    v |= data & ~inside & (opcode == 0)  # continuation without a message in progress
    v |= data & inside & (opcode != 0)  # new message while one is in progress
    v |= data & pmce & (rsv == 4) & inside  # RSV1 only on the first frame of a message (RFC 7692 6.1)
    return v


# payload-length coding, RFC 6455 5.2: (low, high inclusive) -> (7-bit marker or None for 'the length itself', struct fmt, extra octets)
LENGTH_CODING = [
    (0, 125, None, None, 0),
    (126, 0xFFFF, 126, "!H", 2),
    (0x10000, 0x7FFFFFFFFFFFFFFF, 127, "!Q", 8),
]
