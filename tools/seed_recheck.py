#!/venv/bin/python
"""Dev helper: for every /verif/seeded/<ID>-<k>/patch.diff apply it to /repo, run all 20 quick checks, revert, record which fire."""
import json, os, subprocess, sys
from concurrent.futures import ThreadPoolExecutor


def sh(cmd, **kw):
    return subprocess.run(cmd, capture_output=True, text=True, **kw)


only = sys.argv[1:]
ids = [f"C{i:02d}" for i in range(1, 21)]
rows = []
for d in sorted(os.listdir("/verif/seeded")):
    if only and not any(d.startswith(o) for o in only):
        continue
    pd = f"/verif/seeded/{d}/patch.diff"
    if not os.path.exists(pd):
        continue
    if sh(["git", "-C", "/repo", "status", "--porcelain", "--untracked-files=no"]).stdout.strip():
        print("/repo not clean"); sys.exit(3)
    a = sh(["git", "-C", "/repo", "apply", pd])
    if a.returncode:
        print(d, "PATCH DOES NOT APPLY", a.stderr[:200]); continue
    try:
        def run(i):
            r = sh(["/venv/bin/python", "-m", "sa", i, "--tier", "quick"], cwd="/verif", env=dict(os.environ, VERIF_NO_EVIDENCE="1", PYTHONDONTWRITEBYTECODE="1"))
            return i, r.returncode, [l.strip()[:260] for l in r.stdout.splitlines() if l.startswith("  ")][:6], (r.stdout + r.stderr)[-300:]
        with ThreadPoolExecutor(10) as ex:
            res = list(ex.map(run, ids))
    finally:
        sh(["git", "-C", "/repo", "checkout", "--", "."])
    pid = d.split("-")[0]
    fired = {i: v for i, rc, v, _ in res if rc == 1}
    errs = {i: e for i, rc, v, e in res if rc == 2}
    mp = f"/verif/seeded/{d}/meta.json"
    meta = json.load(open(mp))
    meta["checks_firing"] = fired
    meta["own_check_detects"] = pid in fired
    meta.pop("analysis_errors", None)
    if errs:
        meta["analysis_errors"] = errs
    json.dump(meta, open(mp, "w"), indent=1)
    rows.append((d, pid in fired, sorted(fired), sorted(errs)))
    print(f"{d}: own={'DETECTS' if pid in fired else 'MISSES '} firing={sorted(fired)} errors={sorted(errs)}", flush=True)
print("own-check detection:", sum(1 for r in rows if r[1]), "/", len(rows))
