#!/venv/bin/python
"""Dev helper: for every /verif/seeded/<ID>-<k>/patch.diff apply it to /repo, run all 20 quick checks, revert, record which fire."""
import json, os, subprocess, sys
from concurrent.futures import ThreadPoolExecutor


def sh(cmd, **kw):
    return subprocess.run(cmd, capture_output=True, text=True, **kw)


only = [a for a in sys.argv[1:] if not a.startswith("-")]
ids = [f"C{i:02d}" for i in range(1, 21)]
rows = []
for d in sorted(os.listdir("/verif/seeded")):
    if only and not any(d.startswith(o) for o in only):
        continue
    pd = f"/verif/seeded/{d}/patch.diff"
    if not os.path.exists(pd):
        continue
    if sh(["git", "-C", "/repo", "status", "--porcelain", "--untracked-files=no"]).stdout.strip():
        print("/repo not clean"); sys.exit(3)
    a = sh(["git", "-C", "/repo", "apply", pd])
    if a.returncode:
        print(d, "PATCH DOES NOT APPLY", a.stderr[:200]); continue
    try:
        def run(i):
            r = sh(["/venv/bin/python", "-m", "sa", i, "--tier", "quick"], cwd="/verif", env=dict(os.environ, VERIF_NO_EVIDENCE="1", PYTHONDONTWRITEBYTECODE="1"))
            return i, r.returncode, [l.strip()[:260] for l in r.stdout.splitlines() if l.startswith("  ")][:6], (r.stdout + r.stderr)[-300:]
        with ThreadPoolExecutor(10) as ex:
            res = list(ex.map(run, ids))
    finally:
        sh(["git", "-C", "/repo", "checkout", "--", "."])
    pid = d.split("-")[0]
    fired = {i: v for i, rc, v, _ in res if rc == 1}
    errs = {i: e for i, rc, v, e in res if rc == 2}
    mp = f"/verif/seeded/{d}/meta.json"
    meta = json.load(open(mp))
    neutral = meta.get("kind") == "neutral"
    meta["checks_firing"] = fired
    if neutral:
        meta["false_alarms"] = sorted(fired)
    else:
        meta["own_check_detects"] = pid in fired
    meta.pop("analysis_errors", None)
    if errs:
        meta["analysis_errors"] = errs
    json.dump(meta, open(mp, "w"), indent=1)
    good = (not fired and not errs) if neutral else (pid in fired)
    rows.append((d, good, sorted(fired), sorted(errs), neutral))
    if neutral:
        print(f"{d}: neutral {'silent     ' if good else ('FALSE ALARM' if fired else 'BLIND      ')} firing={sorted(fired)} errors={sorted(errs)}", flush=True)
    else:
        print(f"{d}: own={'DETECTS' if pid in fired else 'MISSES '} firing={sorted(fired)} errors={sorted(errs)}", flush=True)
    if not good and "-v" in sys.argv:
        for i, v in list(fired.items()) + [(i, [e]) for i, e in errs.items()]:
            for x in v[:4]:
                print("      ", i, x[:300])
br = [r for r in rows if not r[4]]
ne = [r for r in rows if r[4]]
print("breaking: own-check detection", sum(1 for r in br if r[1]), "/", len(br), "| neutral: silent", sum(1 for r in ne if r[1]), "/", len(ne))
