#!/venv/bin/python
"""Dev helper: after a `fix:` commit in /repo, record it: known_findings.json (fixed), reverse patch for the self-test, refresh the pristine export.
usage: record_fix.py <PROP> <rule-id> <construct> <what failed on the pinned tree> [commit]"""
import json, subprocess, sys, shutil, os
prop, rule, construct, what = sys.argv[1:5]
rev = sys.argv[5] if len(sys.argv) > 5 else "HEAD"  # optional: the fix commit (default: the last one)
c = subprocess.run(["git", "-C", "/repo", "rev-parse", "--short=8", rev], capture_output=True, text=True).stdout.strip()
msg = subprocess.run(["git", "-C", "/repo", "log", "-1", "--format=%s", rev], capture_output=True, text=True).stdout.strip()
assert msg.startswith("fix:"), msg
k = json.load(open("/verif/known_findings.json"))
k["fixed"].append({"property": prop, "rule": rule, "construct": construct, "commit": c, "line": f"fixed: property={prop} {c} {what}"})
json.dump(k, open("/verif/known_findings.json", "w"), indent=1)
d = subprocess.run(["git", "-C", "/repo", "diff", c, c + "~1", "--", "src/autobahn"], capture_output=True, text=True).stdout
open(f"/verif/sa/selftest/reverts/{prop}-{c}.diff", "w").write(d)
shutil.rmtree("/dev/shm/head_src", ignore_errors=True)
os.makedirs("/dev/shm/head_src")
subprocess.run("git -C /repo archive HEAD src/autobahn | tar -x -C /dev/shm/head_src", shell=True, check=True)
print("recorded", prop, c, msg)
