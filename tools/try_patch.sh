#!/bin/bash
# usage: try_patch.sh <PROP> <patch.diff | seeded-dir-name> [more check ids]   -- dev helper
# applies the patch to a scratch copy of /repo HEAD (git archive: independent of the working tree) and runs the quick check(s) on it
set -e
prop=$1; p=$2; shift 2
[ -f "$p" ] || p=/verif/seeded/$p/patch.diff
d=$(mktemp -d /dev/shm/try_XXXX)
git -C /repo archive HEAD src/autobahn | tar -x -C $d
patch -p1 -s -f -d $d -i $p >/dev/null || { echo "PATCH FAILED"; rm -rf $d; exit 3; }
cd /verif
for c in $prop "$@"; do
  VERIF_NO_EVIDENCE=1 /venv/bin/python -m sa $c --tier quick --src $d/src 2>&1 | grep -v "^VIOLATION" | cut -c1-420 | tail -${TAILN:-8}
done
rm -rf $d
