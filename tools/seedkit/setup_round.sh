#!/bin/bash
# usage: setup_round.sh <prefix>   e.g. w3  -> creates /tmp/<prefix>_Cxx worktrees of /repo HEAD, each with PROPERTY.json + run_tests.py
set -e
pre=$1
/venv/bin/python - "$pre" <<'PY'
import json, subprocess, os, shutil, glob, sys
pre = sys.argv[1]
props = [json.loads(l) for l in open("/verif/properties.jsonl")]
ONLY = set(os.environ.get("ONLY_PROPS", "").split()) or {q["id"] for q in props}
for p in [q for q in props if q["id"] in ONLY]:
    wt = f"/tmp/{pre}_{p['id']}"
    if not os.path.exists(wt):
        subprocess.run(["git", "-C", "/repo", "worktree", "add", "--detach", wt, "HEAD"], check=True, capture_output=True)
    json.dump(p, open(os.path.join(wt, "PROPERTY.json"), "w"), indent=1)
    shutil.copy("/verif/tools/seedkit/run_tests.py", os.path.join(wt, "run_tests.py"))
    for so in glob.glob("/repo/src/autobahn/nvx/*.so"):
        shutil.copy(so, os.path.join(wt, "src/autobahn/nvx/"))
print("ok", len(props))
PY
