#!/venv/bin/python
"""Run the project's pinned test suite against THIS worktree and compare with the baseline list of passing tests.
usage: /venv/bin/python run_tests.py   (from the worktree root). Exit 0 = all 288 baseline tests still pass."""
import json, subprocess, tempfile, os, sys
import xml.etree.ElementTree as ET
root = os.path.dirname(os.path.abspath(__file__))
fd, x = tempfile.mkstemp(suffix=".xml"); os.close(fd)
env = dict(os.environ, PYTHONPATH=os.path.join(root, "src"), PYTHONDONTWRITEBYTECODE="1")
subprocess.run(["/venv/bin/python", "-m", "pytest", "-q", "-p", "no:cacheprovider", "--timeout=900",
                "--continue-on-collection-errors", f"--junitxml={x}"], cwd=root, env=env, stdout=subprocess.DEVNULL, stderr=subprocess.DEVNULL)
res = {}
for tc in ET.parse(x).getroot().iter("testcase"):
    st = "pass"
    for c in tc:
        if c.tag in ("failure", "error"): st = "fail"
        elif c.tag == "skipped": st = "skip"
    res[tc.get("classname") + "::" + tc.get("name")] = st
os.unlink(x)
b = json.load(open("/root/.vp/BASELINE.json"))
missing = [t for t in b["stable_pass"] if res.get(t) != "pass"]
print("baseline tests:", len(b["stable_pass"]), " not passing now:", len(missing))
for m in missing[:30]: print("  ", m, res.get(m))
sys.exit(1 if missing else 0)
