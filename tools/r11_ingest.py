#!/venv/bin/python
"""Dev helper: ingest round-11 sub-agent deliveries from /tmp/w11_<ID>: neutral1 -> <ID>-n14 ; seed1 -> <ID>-15.
Records first-contact results (before any rule is changed in response) in meta.json.  usage: r3_ingest.py C01 C02 ..."""
import json, os, subprocess, sys
for pid in sys.argv[1:]:
    wt = f"/tmp/w11_{pid}"
    for src, dst, neutral in (("seed1", f"{pid}-16", False),):
        if not os.path.isdir(os.path.join(wt, src)):
            print(f"=== {pid} {src}: not delivered"); continue
        k = src[-1]
        cmd = ["/verif/tools/seed_ingest.py", wt, pid, k, src, dst] + (["neutral"] if neutral else [])
        r = subprocess.run(cmd, capture_output=True, text=True)
        out = [l for l in r.stdout.splitlines() if not l.startswith(("pristine", "diff", "tests", "patched"))]
        print(f"=== {pid} {src} -> {dst} (rc={r.returncode})"); print("\n".join(l[:300] for l in out[-7:]))
        mp = f"/verif/seeded/{dst}/meta.json"
        if r.returncode == 0 and os.path.exists(mp):
            m = json.load(open(mp)); m["round"] = 11
            if neutral:
                m["first_contact"] = "false alarm" if m.get("false_alarms") else ("blind (ANALYSIS-ERROR)" if m.get("analysis_errors") else "silent")
            else:
                m["first_contact_detected"] = bool(m.get("own_check_detects"))
            json.dump(m, open(mp, "w"), indent=1)
