#!/venv/bin/python
"""Regenerates the three generated tables of DESIGN.md (fixed defects, rules per property, per-seed record) from known_findings.json,
evidence/*.json and seeded/*/meta.json.  Tables sit between <!-- BEGIN:name --> / <!-- END:name --> markers."""
import json, os, re
V = "/verif"
def fixed():
    k = json.load(open(f"{V}/known_findings.json"))
    out = ["| prop | commit | rule | what failed on the pinned tree |", "|---|---|---|---|"]
    for e in k["fixed"]:
        what = e["line"].split(e["commit"], 1)[1].strip().replace("|", "/")
        out.append(f"| {e['property']} | {e['commit']} | {e['rule'].split('-')[0]} | {what} |")
    out.append("")
    out.append(f"({len(k['fixed'])} entries, {len({e['commit'] for e in k['fixed']})} commits; open findings: {len(k['open'])}.)")
    return "\n".join(out)
def rules():
    out = ["| id | rules (obligations) |", "|---|---|"]
    for i in range(1, 21):
        e = json.load(open(f"{V}/evidence/C{i:02d}.json"))
        pr = e["coverage"]["per_rule"]
        out.append(f"| C{i:02d} | " + "; ".join(f"{k} ({v['obligations'] if isinstance(v, dict) else v})" for k, v in sorted(pr.items())) + " |")
    return "\n".join(out)
def seeds():
    out = ["| seed | round | kind | change | first contact | now |", "|---|---|---|---|---|---|"]
    for d in sorted(os.listdir(f"{V}/seeded")):
        m = json.load(open(f"{V}/seeded/{d}/meta.json"))
        kind = m.get("kind", "breaking")
        if kind == "neutral":
            fc = m.get("first_contact", "silent")
            now = "silent" if not m.get("false_alarms") and not m.get("analysis_errors") else "ALARM"
        else:
            fc = "detected" if m.get("first_contact_detected", True) else "MISSED"
            now = ("detected: " + ", ".join(sorted(m.get("checks_firing", {})))) if m.get("own_check_detects") else "MISSED"
        summ = " ".join(m.get("summary", "").replace("|", "/").split())
        if len(summ) > 150:
            summ = summ[:147] + "…"
        out.append(f"| {d} | {m.get('round', '?')} | {kind} | {summ} | {fc} | {now} |")
    return "\n".join(out)
s = open(f"{V}/DESIGN.md").read()
for name, gen in (("fixed", fixed), ("rules", rules), ("seeds", seeds)):
    pat = re.compile(rf"(<!-- BEGIN:{name} -->\n).*?(\n<!-- END:{name} -->)", re.S)
    assert pat.search(s), name
    s = pat.sub(lambda m_: m_.group(1) + gen() + m_.group(2), s)
open(f"{V}/DESIGN.md", "w").write(s)
print("tables regenerated")
