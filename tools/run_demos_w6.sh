#!/bin/bash
# round-6 demos assert their original worktree path: run them in /tmp/w6_<ID> re-created from /repo HEAD
for i in "$@"; do
 (
  d=/tmp/w6_$i; rm -rf $d; mkdir -p $d; git -C /repo archive HEAD src | tar -x -C $d; cp /repo/src/autobahn/nvx/*.so $d/src/autobahn/nvx/ 2>/dev/null
  mkdir $d/neutral1; cp /verif/seeded/$i-n10/demo.py $d/neutral1/demo.py; cp /verif/tools/seedkit/run_tests.py $d/ 2>/dev/null
  r=$(cd $d && PYTHONPATH=$d/src timeout 1500 /venv/bin/python neutral1/demo.py 2>&1 | grep "^PROPERTY" | tail -1 | cut -c1-220)
  echo "$i-n10: ${r:-NO VERDICT}"; rm -rf $d
 ) &
 while [ $(jobs -r | wc -l) -ge 6 ]; do sleep 1; done
done
wait
