#!/bin/bash
# usage: r2_ingest.sh C08 C19 ...   (round-2 worktrees /tmp/w2_<ID>)
cd /verif
for id in "$@"; do
  for k in 1 2 3; do echo "=== $id neutral$k"; tools/seed_ingest.py /tmp/w2_$id $id $k neutral$k $id-n$k neutral 2>&1 | grep -v "^pristine\|^diff\|^tests\|^patched" | cut -c1-300 | tail -6; done
  for k in 1 2; do echo "=== $id seed$k (round 2)"; tools/seed_ingest.py /tmp/w2_$id $id $k seed$k $id-$((k+2)) 2>&1 | grep -v "^pristine\|^diff\|^tests\|^patched" | cut -c1-300 | tail -6; done
done
