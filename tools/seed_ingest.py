#!/venv/bin/python
"""Dev helper: confirm a sub-agent's seeded change and store it under /verif/seeded/<ID>-<k>/.

usage: seed_ingest.py <worktree> <ID> <k> [srcdir] [dstname] [neutral]   (defaults: srcdir=seed<k>, dstname=<ID>-<k>, breaking)
Steps (all in the scratch worktree, never in /repo, except the final check run which applies and reverts the patch):
  1. pristine src: demo must print PROPERTY HOLDS, exit 0
  2. git apply patch: demo must print PROPERTY VIOLATED, exit 1; pinned tests must still pass
  3. copy patch.diff, demo.py, meta.json to /verif/seeded/<ID>-<k>/
  4. git -C /repo apply patch; run every check; git -C /repo checkout -- . ; record which checks fire in meta.json
"""
import json, os, shutil, subprocess, sys
from concurrent.futures import ThreadPoolExecutor

wt, pid, k = sys.argv[1], sys.argv[2], sys.argv[3]
srcdir = sys.argv[4] if len(sys.argv) > 4 else f"seed{k}"
dstname = sys.argv[5] if len(sys.argv) > 5 else f"{pid}-{k}"
neutral = len(sys.argv) > 6 and sys.argv[6] == "neutral"
sd = os.path.join(wt, srcdir)
patch = os.path.join(sd, "patch.diff")
env = dict(os.environ, PYTHONPATH=os.path.join(wt, "src"), PYTHONDONTWRITEBYTECODE="1")


def sh(cmd, **kw):
    return subprocess.run(cmd, capture_output=True, text=True, **kw)


def demo():
    r = sh(["/venv/bin/python", os.path.join(sd, "demo.py")], cwd=wt, env=env, timeout=600)
    lines = [l for l in (r.stdout + r.stderr).splitlines() if l.startswith("PROPERTY")]
    return r.returncode, (lines[-1] if lines else (r.stdout + r.stderr)[-300:])


for f in ("patch.diff", "demo.py", "meta.json"):
    if not os.path.exists(os.path.join(sd, f)):
        print("MISSING", f); sys.exit(2)
sh(["git", "-C", wt, "checkout", "--", "src"])
rc0, l0 = demo()
print("pristine:", rc0, l0[:200])
a = sh(["git", "-C", wt, "apply", "--check", patch])
if a.returncode:
    print("PATCH DOES NOT APPLY", a.stderr[:300]); sys.exit(2)
sh(["git", "-C", wt, "apply", patch])
stat = sh(["git", "-C", wt, "diff", "--stat", "--", "."]).stdout.strip().splitlines()
print("diff:", stat[-1] if stat else "?")
touched = sh(["git", "-C", wt, "diff", "--name-only"]).stdout.split()
rc1, l1 = demo()
print("patched :", rc1, l1[:300])
t = sh(["/venv/bin/python", os.path.join(wt, "run_tests.py")], cwd=wt)
print("tests   :", t.stdout.strip().splitlines()[0] if t.stdout.strip() else t.stderr[-200:])
comp = sh(["/venv/bin/python", "-m", "compileall", "-q", os.path.join(wt, "src", "autobahn")], env=env)
sh(["git", "-C", wt, "checkout", "--", "src"])
if neutral:
    ok = rc0 == 0 and l0.startswith("PROPERTY HOLDS") and rc1 == 0 and l1.startswith("PROPERTY HOLDS") and t.returncode == 0 \
        and all(x.startswith("src/autobahn/") and "/test/" not in x for x in touched)
else:
    ok = rc0 == 0 and l0.startswith("PROPERTY HOLDS") and rc1 == 1 and l1.startswith("PROPERTY VIOLATED") and t.returncode == 0 \
        and all(x.startswith("src/autobahn/") and "/test/" not in x for x in touched)
print("CONFIRMED" if ok else "NOT CONFIRMED", "touched:", touched)
if not ok:
    sys.exit(1)
dst = f"/verif/seeded/{dstname}"
os.makedirs(dst, exist_ok=True)
for f in ("patch.diff", "demo.py", "meta.json"):
    shutil.copy(os.path.join(sd, f), os.path.join(dst, f))
# run the checks against /repo with the patch applied
st = sh(["git", "-C", "/repo", "status", "--porcelain", "--untracked-files=no"]).stdout.strip()
if st:
    print("/repo not clean, not applying:", st[:200]); sys.exit(3)
ap = sh(["git", "-C", "/repo", "apply", os.path.join(dst, "patch.diff")])
if ap.returncode:
    meta = json.load(open(os.path.join(dst, "meta.json")))
    meta["kind"] = "neutral" if neutral else "breaking"
    meta["applies_to_head"] = False
    json.dump(meta, open(os.path.join(dst, "meta.json"), "w"), indent=1)
    print("PATCH DOES NOT APPLY TO CURRENT /repo HEAD (the tree moved on):", ap.stderr.strip()[:200])
    sys.exit(4)
try:
    ids = [f"C{i:02d}" for i in range(1, 21)]

    def run(i):
        r = sh(["/venv/bin/python", "-m", "sa", i, "--tier", "quick"], cwd="/verif", env=dict(os.environ, VERIF_NO_EVIDENCE="1", PYTHONDONTWRITEBYTECODE="1"))
        viol = [l.strip() for l in r.stdout.splitlines() if l.startswith("  src/") or l.startswith("  ")][:6]
        return i, r.returncode, viol, (r.stdout + r.stderr)[-400:] if r.returncode == 2 else ""
    with ThreadPoolExecutor(8) as ex:
        res = list(ex.map(run, ids))
finally:
    sh(["git", "-C", "/repo", "checkout", "--", "."])
fired = {i: v for i, rc, v, _ in res if rc == 1}
errs = {i: e for i, rc, v, e in res if rc == 2}
meta = json.load(open(os.path.join(dst, "meta.json")))
meta["confirmed"] = {"pristine": l0[:200], "patched": l1[:300], "tests": "288 baseline tests pass with the patch"}
meta["checks_firing"] = {i: [x[:260] for x in v] for i, v in fired.items()}
meta["kind"] = "neutral" if neutral else "breaking"
if neutral:
    meta["false_alarms"] = sorted(fired)
else:
    meta["own_check_detects"] = pid in fired
if errs:
    meta["analysis_errors"] = errs
json.dump(meta, open(os.path.join(dst, "meta.json"), "w"), indent=1)
if neutral:
    print("NEUTRAL:", "silent" if not fired and not errs else "FALSE ALARM" if fired else "BLIND", "| firing:", sorted(fired), "| analysis errors:", sorted(errs))
else:
    print("own check", pid, "DETECTS" if pid in fired else "MISSES", "| firing:", sorted(fired), "| analysis errors:", sorted(errs))
for i, v in fired.items():
    for x in v[:3]:
        print("   ", i, x[:230])
for i, e in errs.items():
    print("   ERR", i, e[-300:])
