#!/venv/bin/python
"""Dev helper: apply textual replacements to a scratch copy of /repo/src and run checks against it.
usage: mut.py PROP[,PROP..] file 'old' 'new' [file old new ...]   (file relative to src/autobahn)"""
import sys, os, shutil, subprocess, tempfile
props = sys.argv[1].split(",")
trip = sys.argv[2:]
d = tempfile.mkdtemp(prefix="mut_", dir="/tmp")
try:
    shutil.copytree("/repo/src/autobahn", os.path.join(d, "src", "autobahn"), ignore=shutil.ignore_patterns("__pycache__", "*.so", "*.pyc"))
    for i in range(0, len(trip), 3):
        f, old, new = trip[i:i + 3]
        p = os.path.join(d, "src", "autobahn", f)
        s = open(p).read()
        if s.count(old) < 1:
            print("PATTERN NOT FOUND:", old); sys.exit(3)
        s = s.replace(old, new, 1)
        if p.endswith(".py"): compile(s, p, "exec")
        open(p, "w").write(s)
    for pr in props:
        r = subprocess.run(["/venv/bin/python", "-m", "sa", pr, "--src", os.path.join(d, "src"), "--replay", "/dev/null"] if False else
                           ["/venv/bin/python", "-m", "sa", pr, "--src", os.path.join(d, "src")], cwd="/verif", capture_output=True, text=True,
                           env={**os.environ, "VERIF_NO_EVIDENCE": "1", "PYTHONDONTWRITEBYTECODE": "1"})
        out = [l for l in r.stdout.splitlines() if not l.startswith("VIOLATION")]
        print(f"--- {pr} rc={r.returncode}")
        print("\n".join(out[-6:]))
        if r.returncode == 2: print(r.stderr[-800:])
finally:
    shutil.rmtree(d, ignore_errors=True)
