#!/usr/bin/env python3
"""Dev helper: run the pinned suite and compare with BASELINE.json stable_pass (not a registered check)."""
import json, subprocess, tempfile, os, sys
import xml.etree.ElementTree as ET
fd, x = tempfile.mkstemp(suffix=".xml"); os.close(fd)
subprocess.run(["/venv/bin/python", "-m", "pytest", "-q", "-p", "no:cacheprovider", "--timeout=900",
                "--continue-on-collection-errors", f"--junitxml={x}"], cwd="/repo", stdout=subprocess.DEVNULL, stderr=subprocess.DEVNULL)
res = {}
for tc in ET.parse(x).getroot().iter("testcase"):
    st = "pass"
    for c in tc:
        if c.tag in ("failure", "error"): st = "fail"
        elif c.tag == "skipped": st = "skip"
    res[tc.get("classname") + "::" + tc.get("name")] = st
os.unlink(x)
b = json.load(open("/root/.vp/BASELINE.json"))
missing = [t for t in b["stable_pass"] if res.get(t) != "pass"]
print("stable_pass", len(b["stable_pass"]), "not passing now", len(missing))
for m in missing[:20]: print("  ", m, res.get(m))
sys.exit(1 if missing else 0)
