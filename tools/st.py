#!/venv/bin/python
"""work-copy self-test: st.py C04 [C05 ...] -- runs sa.selftest against a pristine export of /repo HEAD (independent of the working tree)"""
import sys, os
sys.path.insert(0, "/verif")
os.chdir("/verif")
from sa import selftest
for prop in sys.argv[1:]:
    st = selftest.run(prop, "/dev/shm/head_src/src")
    for r in st["failed"]:
        print(f"  FAIL {r['kind']} '{r['name']}': {r['status']} {r.get('why','')[-400:]}")
    print(f"[{prop}] {st['detected']}/{st['mutants']} mutants detected, {st['silent']}/{st['clean_variants']} clean silent, skipped {st['skipped']}")
