#!/bin/bash
# dev helper: run the sub-agents' property demos (the neutral ones are broad grids) against the CURRENT /repo HEAD; usage: run_demos.sh n4 [n5 ...]
for suf in "$@"; do
 for i in 01 02 03 04 05 06 07 08 09 10 11 12 13 14 15 16 17 18 19 20; do
  x=C$i-$suf; [ -f /verif/seeded/$x/demo.py ] || continue
  (
   d=$(mktemp -d /dev/shm/dm_XXXX); git -C /repo archive HEAD src | tar -x -C $d; cp /repo/src/autobahn/nvx/*.so $d/src/autobahn/nvx/ 2>/dev/null
   mkdir $d/neutral1; cp /verif/seeded/$x/demo.py $d/neutral1/demo.py; cp /verif/tools/seedkit/run_tests.py $d/ 2>/dev/null
   r=$(cd $d && PYTHONPATH=$d/src timeout 900 /venv/bin/python neutral1/demo.py 2>&1 | grep "^PROPERTY" | tail -1 | cut -c1-260)
   echo "$x: ${r:-NO VERDICT}"; rm -rf $d
  ) &
  while [ $(jobs -r | wc -l) -ge 8 ]; do sleep 1; done
 done
done
wait
