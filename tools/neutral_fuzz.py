#!/venv/bin/python
"""Dev helper (not a registered check): mechanical behaviour-preserving rewrites of the functions a property's check analyses, one function and
one transformation at a time, each variant checked with the property's quick check.  Every report (exit 1 or exit 2) on such a variant is a false
alarm / blind spot of the MACHINERY, to be corrected there.  Complements the independent seeding (which finds what people would write) by being
exhaustive over a small family of rewrites.

usage: neutral_fuzz.py <PROP> [--sa /dev/shm/vw] [--src /dev/shm/head_src/src] [--jobs 14] [--only transform,..]
Transformations: rename (alpha-rename of locals), swapcmp (a < b -> b > a on call-free operands), invertif (if c: A else: B -> if not c: B else: A),
splitand (if a and b: X -> if a: if b: X), mergeif (the reverse), tempret (return e -> r = e; return r), ifexp (x = a if c else b -> if/else),
augexp (x += y -> x = x + y), control (unparse only)."""
import ast, copy, json, os, shutil, subprocess, sys, tempfile
from concurrent.futures import ThreadPoolExecutor


def own_scope_nodes(fn):
    """nodes of fn's own scope (not inside nested defs / lambdas / classes)"""
    out = []
    stack = list(fn.body)
    while stack:
        n = stack.pop()
        out.append(n)
        for c in ast.iter_child_nodes(n):
            if isinstance(c, (ast.FunctionDef, ast.AsyncFunctionDef, ast.Lambda, ast.ClassDef)):
                continue
            stack.append(c)
    return out


def has_call(e):
    return any(isinstance(x, (ast.Call, ast.Await, ast.Yield, ast.YieldFrom, ast.NamedExpr)) for x in ast.walk(e))


def t_rename(fn):
    params = {a.arg for a in fn.args.posonlyargs + fn.args.args + fn.args.kwonlyargs}
    if fn.args.vararg:
        params.add(fn.args.vararg.arg)
    if fn.args.kwarg:
        params.add(fn.args.kwarg.arg)
    own = own_scope_nodes(fn)
    stored = {n.id for n in own if isinstance(n, ast.Name) and isinstance(n.ctx, (ast.Store, ast.Del))}
    stored |= {h.name for h in own if isinstance(h, ast.ExceptHandler) and h.name}
    banned = set(params)
    for n in ast.walk(fn):
        if isinstance(n, (ast.Global, ast.Nonlocal)):
            banned |= set(n.names)
        if n is not fn and isinstance(n, (ast.FunctionDef, ast.AsyncFunctionDef, ast.Lambda, ast.ClassDef)):
            banned |= {x.id for x in ast.walk(n) if isinstance(x, ast.Name)}
            if hasattr(n, "name"):
                banned.add(n.name)
        if isinstance(n, (ast.ListComp, ast.SetComp, ast.DictComp, ast.GeneratorExp)):
            for g in n.generators:
                banned |= {x.id for x in ast.walk(g.target) if isinstance(x, ast.Name)}
    names = sorted(stored - banned)
    if not names:
        return False
    ren = {n: f"{n}_rn" for n in names}
    for n in own:
        if isinstance(n, ast.Name) and n.id in ren:
            n.id = ren[n.id]
        elif isinstance(n, ast.ExceptHandler) and n.name in ren:
            n.name = ren[n.name]
    return True


MIRROR = {ast.Lt: ast.Gt, ast.Gt: ast.Lt, ast.LtE: ast.GtE, ast.GtE: ast.LtE, ast.Eq: ast.Eq, ast.NotEq: ast.NotEq}


def t_swapcmp(fn):
    ch = False
    for n in own_scope_nodes(fn):
        if isinstance(n, ast.Compare) and len(n.ops) == 1 and type(n.ops[0]) in MIRROR and not has_call(n.left) and not has_call(n.comparators[0]):
            n.left, n.comparators[0] = n.comparators[0], n.left
            n.ops[0] = MIRROR[type(n.ops[0])]()
            ch = True
    return ch


def t_invertif(fn):
    ch = False
    for n in own_scope_nodes(fn):
        if isinstance(n, ast.If) and n.orelse:
            n.test = n.test.operand if isinstance(n.test, ast.UnaryOp) and isinstance(n.test.op, ast.Not) else ast.UnaryOp(op=ast.Not(), operand=n.test)
            n.body, n.orelse = n.orelse, n.body
            ch = True
    return ch


def t_splitand(fn):
    ch = False
    for n in own_scope_nodes(fn):
        if isinstance(n, ast.If) and not n.orelse and isinstance(n.test, ast.BoolOp) and isinstance(n.test.op, ast.And) and len(n.test.values) >= 2:
            first, rest = n.test.values[0], n.test.values[1:]
            inner = ast.If(test=rest[0] if len(rest) == 1 else ast.BoolOp(op=ast.And(), values=rest), body=n.body, orelse=[])
            n.test, n.body = first, [inner]
            ch = True
    return ch


def t_mergeif(fn):
    ch = False
    for n in own_scope_nodes(fn):
        if isinstance(n, ast.If) and not n.orelse and len(n.body) == 1 and isinstance(n.body[0], ast.If) and not n.body[0].orelse:
            inner = n.body[0]
            n.test = ast.BoolOp(op=ast.And(), values=[n.test, inner.test])
            n.body = inner.body
            ch = True
    return ch


def _blocks(fn):
    for n in [fn] + own_scope_nodes(fn):
        for f in ("body", "orelse", "finalbody"):
            b = getattr(n, f, None)
            if isinstance(b, list) and b and isinstance(b[0], ast.stmt):
                yield b
        if isinstance(n, ast.Try):
            for h in n.handlers:
                yield h.body


def t_tempret(fn):
    ch = False
    for b in _blocks(fn):
        for i, s in enumerate(list(b)):
            if isinstance(s, ast.Return) and s.value is not None and not isinstance(s.value, (ast.Constant, ast.Name)):
                idx = b.index(s)
                b[idx:idx + 1] = [ast.Assign(targets=[ast.Name(id="result_rn", ctx=ast.Store())], value=s.value, lineno=s.lineno),
                                  ast.Return(value=ast.Name(id="result_rn", ctx=ast.Load()))]
                ch = True
    return ch


def t_ifexp(fn):
    ch = False
    for b in _blocks(fn):
        for s in list(b):
            if isinstance(s, ast.Assign) and len(s.targets) == 1 and isinstance(s.targets[0], ast.Name) and isinstance(s.value, ast.IfExp):
                idx = b.index(s)
                t = s.targets[0]
                b[idx] = ast.If(test=s.value.test, body=[ast.Assign(targets=[copy.deepcopy(t)], value=s.value.body, lineno=s.lineno)],
                                orelse=[ast.Assign(targets=[copy.deepcopy(t)], value=s.value.orelse, lineno=s.lineno)])
                ch = True
    return ch


def t_augexp(fn):
    ch = False
    for b in _blocks(fn):
        for s in list(b):
            if isinstance(s, ast.AugAssign) and (isinstance(s.target, ast.Name) or (isinstance(s.target, ast.Attribute) and isinstance(s.target.value, ast.Name))):
                idx = b.index(s)
                load = copy.deepcopy(s.target)
                load.ctx = ast.Load()
                b[idx] = ast.Assign(targets=[s.target], value=ast.BinOp(left=load, op=s.op, right=s.value), lineno=s.lineno)
                ch = True
    return ch


def _pure(e):
    """no call / await / yield / walrus / subscript-with-call: evaluating e twice or at a slightly different place changes nothing (attribute and item
    reads are taken as pure, as the project's own code treats them)"""
    return not has_call(e)


def _names(e, ctx=None):
    return {x.id for x in ast.walk(e) if isinstance(x, ast.Name) and (ctx is None or isinstance(x.ctx, ctx))}


def t_nametest(fn):
    """if <pure test>: ...  ->  cond_rnK = <test>; if cond_rnK: ...   (a named boolean)"""
    ch = 0
    for b in _blocks(fn):
        for s in list(b):
            if isinstance(s, ast.If) and isinstance(s.test, (ast.Compare, ast.BoolOp)) and _pure(s.test):
                idx = b.index(s)
                nm = f"cond_rn{ch}"
                b[idx:idx + 1] = [ast.Assign(targets=[ast.Name(id=nm, ctx=ast.Store())], value=s.test, lineno=s.lineno), s]
                s.test = ast.Name(id=nm, ctx=ast.Load())
                ch += 1
    return ch > 0


def _simple_assign(s):
    return isinstance(s, ast.Assign) and len(s.targets) == 1 and isinstance(s.targets[0], ast.Name) and _pure(s.value)


def t_swapassign(fn):
    """two adjacent call-free assignments to different locals, neither reading the other's target: swapped"""
    ch = False
    for b in _blocks(fn):
        i = 0
        while i + 1 < len(b):
            a, c = b[i], b[i + 1]
            if _simple_assign(a) and _simple_assign(c) and a.targets[0].id != c.targets[0].id and a.targets[0].id not in _names(c.value) and c.targets[0].id not in _names(a.value):
                b[i], b[i + 1] = c, a
                ch = True
                i += 2
            else:
                i += 1
    return ch


def t_demorgan(fn):
    """if a and b: X else: Y  ->  if not a or not b: Y else: X"""
    ch = False
    for n in own_scope_nodes(fn):
        if isinstance(n, ast.If) and n.orelse and isinstance(n.test, ast.BoolOp) and isinstance(n.test.op, ast.And):
            n.test = ast.BoolOp(op=ast.Or(), values=[v.operand if isinstance(v, ast.UnaryOp) and isinstance(v.op, ast.Not) else ast.UnaryOp(op=ast.Not(), operand=v) for v in n.test.values])
            n.body, n.orelse = n.orelse, n.body
            ch = True
    return ch


def t_splittuple(fn):
    """a, b = x, y  ->  a = x; b = y   (y does not read a; all pure)"""
    ch = False
    for b in _blocks(fn):
        for s in list(b):
            if isinstance(s, ast.Assign) and len(s.targets) == 1 and isinstance(s.targets[0], ast.Tuple) and isinstance(s.value, ast.Tuple) and \
                    len(s.targets[0].elts) == len(s.value.elts) and all(isinstance(t, ast.Name) for t in s.targets[0].elts) and all(_pure(v) for v in s.value.elts):
                tn = [t.id for t in s.targets[0].elts]
                if any(tn[i] in _names(v) for j, v in enumerate(s.value.elts) for i in range(j)):
                    continue
                idx = b.index(s)
                b[idx:idx + 1] = [ast.Assign(targets=[t], value=v, lineno=s.lineno) for t, v in zip(s.targets[0].elts, s.value.elts)]
                ch = True
    return ch


def t_mergetuple(fn):
    """a = x; b = y (adjacent, pure, y does not read a, x does not read b)  ->  a, b = x, y"""
    ch = False
    for b in _blocks(fn):
        i = 0
        while i + 1 < len(b):
            a, c = b[i], b[i + 1]
            if _simple_assign(a) and _simple_assign(c) and a.targets[0].id != c.targets[0].id and a.targets[0].id not in _names(c.value) and c.targets[0].id not in _names(a.value):
                b[i:i + 2] = [ast.Assign(targets=[ast.Tuple(elts=[a.targets[0], c.targets[0]], ctx=ast.Store())], value=ast.Tuple(elts=[a.value, c.value], ctx=ast.Load()), lineno=a.lineno)]
                ch = True
            i += 1
    return ch


def t_chainalias(fn):
    """self.a = E; <reads of self.a in the following statements of the same block, up to the first statement that calls anything or stores self.a>
       ->  self.a = a_rn = E; <the same reads through a_rn>"""
    ch = 0
    for b in _blocks(fn):
        for i, s in enumerate(list(b)):
            if not (isinstance(s, ast.Assign) and len(s.targets) == 1 and isinstance(s.targets[0], ast.Attribute) and isinstance(s.targets[0].value, ast.Name)
                    and s.targets[0].value.id == "self"):
                continue
            attr = s.targets[0].attr
            nm = f"{attr.lstrip('_')}_rn{ch}"
            replaced = 0
            for later in b[b.index(s) + 1:]:
                if isinstance(later, (ast.FunctionDef, ast.AsyncFunctionDef, ast.ClassDef)):
                    break
                stores = any(isinstance(x, ast.Attribute) and x.attr == attr and isinstance(x.ctx, (ast.Store, ast.Del)) for x in ast.walk(later))
                calls = has_call(later) or any(isinstance(x, (ast.For, ast.While, ast.Try, ast.With)) for x in ast.walk(later))
                if stores or calls:
                    break
                for x in ast.walk(later):
                    for f_, v_ in ast.iter_fields(x):
                        if isinstance(v_, ast.Attribute) and v_.attr == attr and isinstance(v_.value, ast.Name) and v_.value.id == "self" and isinstance(v_.ctx, ast.Load):
                            setattr(x, f_, ast.Name(id=nm, ctx=ast.Load()))
                            replaced += 1
                        elif isinstance(v_, list):
                            for j, y in enumerate(v_):
                                if isinstance(y, ast.Attribute) and y.attr == attr and isinstance(y.value, ast.Name) and y.value.id == "self" and isinstance(y.ctx, ast.Load):
                                    v_[j] = ast.Name(id=nm, ctx=ast.Load())
                                    replaced += 1
            if replaced:
                s.targets = [s.targets[0], ast.Name(id=nm, ctx=ast.Store())]
                ch += 1
    return ch > 0


TRANSFORMS = {"control": lambda fn: True, "chainalias": t_chainalias, "nametest": t_nametest, "swapassign": t_swapassign, "demorgan": t_demorgan, "splittuple": t_splittuple, "mergetuple": t_mergetuple, "rename": t_rename, "swapcmp": t_swapcmp, "invertif": t_invertif, "splitand": t_splitand, "mergeif": t_mergeif,
              "tempret": t_tempret, "ifexp": t_ifexp, "augexp": t_augexp}


def find_fn(tree, path):
    cur = tree
    for name in path:
        nxt = None
        for n in ast.walk(cur) if cur is not tree else tree.body:
            if isinstance(n, (ast.FunctionDef, ast.AsyncFunctionDef, ast.ClassDef)) and n.name == name and n is not cur:
                nxt = n
                break
        if nxt is None:
            # a class-level / module-level search that also looks into conditional blocks (if USES_NVX: ... else: class ...)
            for n in ast.walk(cur):
                if isinstance(n, (ast.FunctionDef, ast.AsyncFunctionDef, ast.ClassDef)) and n.name == name and n is not cur:
                    nxt = n
                    break
        if nxt is None:
            return None
        cur = nxt
    return cur if isinstance(cur, (ast.FunctionDef, ast.AsyncFunctionDef)) else None


def locate(src, qual):
    parts = qual.split(".")
    for k in range(len(parts) - 1, 0, -1):
        f = os.path.join(src, *parts[:k]) + ".py"
        if os.path.isfile(f):
            return f, [x for x in parts[k:] if x != '<locals>']
        f2 = os.path.join(src, *parts[:k], "__init__.py")
        if os.path.isfile(f2) and k < len(parts):
            return f2, [x for x in parts[k:] if x != '<locals>']
    return None, None


def main():
    args = sys.argv[1:]
    prop = args[0]
    opt = dict(zip(args[1::2], args[2::2]))
    sa = opt.get("--sa", "/dev/shm/vw")
    src = opt.get("--src", "/dev/shm/head_src/src")
    jobs = int(opt.get("--jobs", "14"))
    only = opt.get("--only", "").split(",") if opt.get("--only") else list(TRANSFORMS)
    ev = json.load(open(f"/verif/evidence/{prop}.json"))
    quals = sorted(set(ev["coverage"]["functions_analysed"]))
    work = []
    for q in quals:
        f, path = locate(src, q)
        if f is None or not f.endswith(".py"):
            continue
        for t in only:
            if t == "control" and any(w[2] == f and w[1] == "control" for w in work):
                continue
            work.append((q, t, f, path))
    base = tempfile.mkdtemp(prefix="nfz_", dir="/dev/shm")

    def run(item):
        q, t, f, path = item
        tree = ast.parse(open(f).read())
        fn = find_fn(tree, path)
        if fn is None:
            return (q, t, "notfound", "")
        try:
            changed = TRANSFORMS[t](fn)
        except Exception as e:  # noqa
            return (q, t, "transform-error", repr(e))
        if not changed:
            return (q, t, "nochange", "")
        ast.fix_missing_locations(tree)
        try:
            text = ast.unparse(tree)
            compile(text, f, "exec")
        except Exception as e:  # noqa
            return (q, t, "unparse-error", repr(e))
        d = tempfile.mkdtemp(prefix="v_", dir=base)
        subprocess.run(["cp", "-al", src, os.path.join(d, "src")], check=True)
        tgt = os.path.join(d, "src", os.path.relpath(f, src))
        os.unlink(tgt)
        open(tgt, "w").write(text + "\n")
        r = subprocess.run(["/venv/bin/python", "-m", "sa", prop, "--tier", "quick", "--src", os.path.join(d, "src")], cwd=sa, capture_output=True, text=True,
                           env=dict(os.environ, VERIF_NO_EVIDENCE="1", PYTHONDONTWRITEBYTECODE="1"))
        out = [l.strip() for l in (r.stdout + r.stderr).splitlines() if l.startswith("  ") or l.startswith("ANALYSIS-ERROR")]
        shutil.rmtree(d, ignore_errors=True)
        return (q, t, {0: "silent", 1: "FALSE-ALARM", 2: "BLIND"}.get(r.returncode, f"rc{r.returncode}"), " || ".join(x[:230] for x in out[:2]))
    with ThreadPoolExecutor(jobs) as ex:
        res = list(ex.map(run, work))
    shutil.rmtree(base, ignore_errors=True)
    tally = {}
    for q, t, st, msg in res:
        tally[st] = tally.get(st, 0) + 1
        if st not in ("silent", "nochange"):
            print(f"{st:12s} {t:9s} {q}: {msg}")
    print(f"[{prop}] variants: {tally}")


main()
