"""Dev-only (Twisted): server onConnect() returns a Deferred; the connection is lost; then the application denies the connection."""
import txaio; txaio.use_twisted()
from twisted.internet import defer
from twisted.internet.error import ConnectionLost
from twisted.python.failure import Failure
from twisted.test.proto_helpers import StringTransportWithDisconnection
from autobahn.twisted.websocket import WebSocketServerProtocol, WebSocketServerFactory
from autobahn.websocket.types import ConnectionDeny
events = []
class S(WebSocketServerProtocol):
    def onConnect(self, request):
        self.d = defer.Deferred(); return self.d
    def onClose(self, wasClean, code, reason): events.append("onClose")
class T(StringTransportWithDisconnection):
    def write(self, data):
        events.append("write(%d octets)" % len(data)); super().write(data)
f = WebSocketServerFactory("ws://localhost:9000"); f.protocol = S
p = f.buildProtocol(None); t = T(); t.protocol = p
p.makeConnection(t)
p.dataReceived(b"GET / HTTP/1.1\r\nHost: localhost:9000\r\nUpgrade: websocket\r\nConnection: Upgrade\r\n"
               b"Sec-WebSocket-Key: dGhlIHNhbXBsZSBub25jZQ==\r\nSec-WebSocket-Version: 13\r\n\r\n")
p.connectionLost(Failure(ConnectionLost()))
try:
    p.d.errback(ConnectionDeny(403, "no"))
except Exception as e:
    events.append("escapes: %r" % e)
print("server, denial after the connection was lost:", events)
