"""C06 / C04: requests still pending from an earlier session on the same session object (its onLeave was overridden and did not fail them) survive
into the next session; with per-session request ids they collide with the new session's ids: the old pending results are lost for good.
usage: PYTHONPATH=<tree>/src python c06e_probe.py"""
import txaio
txaio.use_twisted()
from autobahn.wamp import message, role
from autobahn.wamp.protocol import ApplicationSession
from autobahn.wamp.serializer import JsonSerializer

class T:
    def __init__(self): self.sent = []; self._serializer = JsonSerializer(); self.transport_details = None
    def send(self, msg): self.sent.append(msg)
    def isOpen(self): return True
    def close(self): pass
    def abort(self): pass

class S(ApplicationSession):
    def onLeave(self, details): pass       # application keeps the transport and does not call the base implementation

t = T(); s = S(); s.onOpen(t)
roles = {"broker": role.RoleBrokerFeatures(), "dealer": role.RoleDealerFeatures()}
s.onMessage(message.Welcome(1001, roles))
old = s.call("com.old")                      # request 1 of session 1, never answered
outcome = []
old.addCallbacks(lambda r: outcome.append(("result", r)), lambda f: outcome.append(("error", type(f.value).__name__)))
s.onMessage(message.Goodbye())
s.join("realm1")
s.onMessage(message.Welcome(1002, roles))
new = s.call("com.new")                      # request 1 of session 2
new_out = []
new.addCallbacks(lambda r: new_out.append(("result", r)), lambda f: new_out.append(("error", type(f.value).__name__)))
s.onMessage(message.Result(1, args=["answer for the NEW call"]))
s.onClose(True)
print("old call (session 1):", outcome or "still pending, lost"); print("new call (session 2):", new_out)
bad = not outcome or outcome[0][0] != "error" or new_out[:1] != [("result", "answer for the NEW call")]
print("DEFECT: a pending request of the ended session is lost / confused with the new session's request" if bad else "ok")
raise SystemExit(1 if bad else 0)
