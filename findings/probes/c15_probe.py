"""Dev-only: sendFrame() with an explicit masking key must put that key on the wire."""
from harness import *
p, t = open_client()
t.written.clear()
p.sendFrame(opcode=2, payload=b"abcdef", mask=b"\x01\x02\x03\x04")
spin()
w = b"".join(t.written)
print("wire:", w.hex(), "len", len(w), "(expected 2 header + 4 key + 6 payload = 12)")
s, ts = open_server()
got = []
s.onMessage = lambda payload, isBinary: got.append(payload)
feed(s, w)
print("server delivered:", got, "state", s.state)
