"""Dev-only (Twisted): the AuthCryptoSign of autobahn.twisted.wamp answering a cryptosign challenge."""
import txaio; txaio.use_twisted()
from autobahn.twisted.wamp import AuthCryptoSign
from autobahn.wamp.types import Challenge, TransportDetails
class S:  # a session with a transport, as the real one has
    class _transport:
        transport_details = TransportDetails(channel_id={"tls-unique": b"\x01" * 32})
a = AuthCryptoSign(privkey="11" * 32)
try:
    r = a.on_challenge(S(), Challenge("cryptosign", {"challenge": "22" * 32}))
    print("twisted AuthCryptoSign.on_challenge ->", type(r).__name__)
except Exception as e:
    print("twisted AuthCryptoSign.on_challenge raises", type(e).__name__, e)
