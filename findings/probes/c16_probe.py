"""#20: PerMessageDeflate with max_message_size delivers a truncated message and corrupts the next one."""
import zlib
import txaio; txaio.use_asyncio()
from autobahn.websocket.compress_deflate import PerMessageDeflate
tx = PerMessageDeflate(False, False, False, 15, 15, None)
rx = PerMessageDeflate(True, False, False, 15, 15, None, max_message_size=100)
def send(msg):
    tx.start_compress_message(); d = tx.compress_message_data(msg) + tx.end_compress_message(); return d
def recv(d):
    rx.start_decompress_message(); out = rx.decompress_message_data(d); rx.end_decompress_message(); return out
m1 = bytes(range(256)) * 4
o1 = recv(send(m1))
print("message 1: sent", len(m1), "delivered", len(o1), "truncated:", o1 != m1 and m1.startswith(o1))
m2 = b"second message"
try:
    o2 = recv(send(m2)); print("message 2 delivered:", o2, "== sent:", o2 == m2)
except Exception as e:
    print("message 2 raised", type(e).__name__, e)
