"""C03: fields lost by marshal() guards."""
import txaio; txaio.use_asyncio()
from autobahn.wamp import message, role
from autobahn.wamp.serializer import JsonSerializer
ser = JsonSerializer()
def rt(m):
    data, b = ser.serialize(m); return ser.unserialize(data, b)[0]
roles = {"broker": role.RoleBrokerFeatures()}
w = rt(message.Welcome(1, roles, authmethod="ticket"))
print("Welcome(authmethod='ticket') ->", w.authmethod)
w = rt(message.Welcome(1, roles, resumed=False, resumable=False))
print("Welcome(resumed=False, resumable=False) ->", w.resumed, w.resumable)
g = rt(message.Goodbye(resumable=False))
print("Goodbye(resumable=False) ->", g.resumable)
