"""Dev-only: str() of an ApplicationError that carries a forwarded traceback."""
import txaio; txaio.use_asyncio()
from autobahn.wamp.exception import ApplicationError
e = ApplicationError("com.e", 1, traceback="Traceback (most recent call last): ...", k=2)
before = dict(e.kwargs)
s = str(e)
print("kwargs before str():", before)
print("kwargs after  str():", e.kwargs, "  <-- changed" if e.kwargs != before else "")
