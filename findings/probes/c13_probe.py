"""#12/#13 + PING frame: asyncio rawsocket escapes; websocket InvalidUriError close code."""
import txaio; txaio.use_asyncio()
import asyncio, struct
loop = asyncio.new_event_loop(); asyncio.set_event_loop(loop); txaio.config.loop = loop
from autobahn.asyncio.rawsocket import WampRawSocketServerFactory
from autobahn.wamp.protocol import ApplicationSession
class T:
    def __init__(self): self.w = []; self.closed = False; self.aborted = False
    def write(self, d): self.w.append(d)
    def close(self): self.closed = True
    def abort(self): self.aborted = True
    def get_extra_info(self, k, d=None): return {"peername": ("127.0.0.1", 1), "sockname": ("127.0.0.1", 2)}.get(k, d)
def mk():
    f = WampRawSocketServerFactory(ApplicationSession)
    p = f(); t = T(); p.connection_made(t); return p, t
p, t = mk()
try:
    p.data_received(b"\x7f\xff\x00\x00")   # serializer 15: unsupported
    print("F12 unsupported serializer: no exception; aborted/closed:", t.aborted or t.closed)
except Exception as e:
    print("F12 unsupported serializer: ESCAPED", type(e).__name__)
p, t = mk()
p.data_received(b"\x7f\xf1\x00\x00")       # json
try:
    p.data_received(b"\x01\x00\x00\x01x")   # PING frame, 1 octet
    print("PING frame: no exception; closed:", t.closed or t.aborted)
except Exception as e:
    print("PING frame: ESCAPED", type(e).__name__)
# websocket: InvalidUriError close code
from autobahn.wamp.websocket import WampWebSocketProtocol
from autobahn.wamp.serializer import JsonSerializer
class W(WampWebSocketProtocol):
    log = txaio.make_logger()
    def _bailout(self, code, reason=None): print("F13 websocket close code for a malformed URI:", code)
w = W(); w._serializer = JsonSerializer(); w._session = type("S", (), {"_authid": None, "_session_id": None, "onMessage": lambda self, m: None})()
w.onMessage(b'[32, 1, {}, "not a uri !!"]', False)
