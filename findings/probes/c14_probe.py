"""Dev-only: the retry budget of a transport is counted since its last successful join -- also for a component without a main function."""
import txaio; txaio.use_asyncio()
import asyncio
loop = asyncio.new_event_loop(); asyncio.set_event_loop(loop); txaio.config.loop = loop
from autobahn.asyncio.component import Component
from autobahn.wamp.types import SessionDetails

for with_main in (False, True):
    async def main(reactor, session): pass
    c = Component(transports=[{"type": "websocket", "url": "ws://localhost:1/ws", "max_retries": 1}], realm="r", main=main if with_main else None)
    tr = c._transports[0]
    made = []
    def fake_connect_transport(reactor, transport, session_factory, done):
        made.append(session_factory())
        return txaio.create_future()
    c._connect_transport = fake_connect_transport
    tr.connect_attempts = 1   # one attempt already spent
    c._connect_once(loop, tr)
    s = made[0]
    s.fire("join", s, None)
    loop.run_until_complete(asyncio.sleep(0))
    print(f"P: main {'given' if with_main else 'absent'}: attempts counted after a successful join = {tr.connect_attempts} (0 = fresh budget)")
