"""C08: REGISTER accepts a wrongly typed 'force_reregister' option (1, 0, 1.0 pass `x not in [True, False, None]`).
usage: PYTHONPATH=<tree>/src python c08e_probe.py"""
from autobahn.wamp.message import Register
from autobahn.wamp.exception import ProtocolError
bad = 0
for v in (True, False, None, 1, 0, 1.0, 0.0, "yes", []):
    try:
        m = Register.parse([64, 1, {"force_reregister": v}, "a.b"])
        out = f"accepted -> marshals {m.marshal()[2]}"
        if type(v) != bool and v is not None:
            bad += 1
    except ProtocolError:
        out = "ProtocolError"
    print(f"force_reregister={v!r}: {out}")
print("DEFECT: wrongly typed option accepted" if bad else "ok")
raise SystemExit(1 if bad else 0)
