"""#14/#15: rawsocket send() error classes."""
import txaio
import sys
which = sys.argv[1]
if which == "tx":
    txaio.use_twisted()
    from autobahn.twisted.rawsocket import WampRawSocketProtocol as P
else:
    txaio.use_asyncio()
    from autobahn.asyncio.rawsocket import WampRawSocketServerProtocol as P
from autobahn.wamp import message
from autobahn.wamp.serializer import JsonSerializer
from autobahn.wamp.exception import SerializationError
from autobahn.exception import PayloadExceededError
class T:
    def write(self, d): pass
p = P.__new__(P)
p._session = object(); p._serializer = JsonSerializer(); p.log = txaio.make_logger(); p.transport = T()
p._max_len_send = 512; p.max_length_send = 512; p.prefix_format = "!L"
if which == "tx":
    p.sendString = lambda d: None
for name, msg in (("un-serializable", message.Yield(1, args=[object()])), ("oversized", message.Yield(1, args=["x" * 2000]))):
    try:
        p.send(msg); print(which, name, "-> sent")
    except (SerializationError, PayloadExceededError) as e:
        print(which, name, "->", type(e).__name__, "(handled by the continuation)")
    except Exception as e:
        print(which, name, "-> ESCAPES as", type(e).__name__, e)
