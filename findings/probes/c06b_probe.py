"""Dev-only (Twisted): the session class of autobahn.twisted.wamp.Application with a call pending when the router says GOODBYE and the transport closes."""
import txaio; txaio.use_twisted()
from autobahn.wamp import message, role
from autobahn.wamp.types import ComponentConfig
from autobahn.wamp.serializer import JsonSerializer
from autobahn.twisted.wamp import _ApplicationSession, Application
class T:
    def __init__(self): self.sent = []; self._serializer = JsonSerializer(); self.transport_details = None; self.closed = False
    def send(self, m): self.sent.append(m)
    def isOpen(self): return not self.closed
    def close(self): self.closed = True
    def abort(self): self.closed = True
app = Application()
s = _ApplicationSession(ComponentConfig("realm1"), app); t = T(); s.onOpen(t)
s.onMessage(message.Welcome(1, {"broker": role.RoleBrokerFeatures(), "dealer": role.RoleDealerFeatures()}))
d = s.call("com.x"); out = []
d.addCallbacks(lambda r: out.append(("ok", r)), lambda f: out.append(("err", type(f.value).__name__)))
s.onMessage(message.Goodbye()); s.onClose(True)
print("F2: pending call after GOODBYE + close:", out or "NEVER COMPLETED", "| _call_reqs:", len(s._call_reqs))
