"""C12: an EMPTY message sent without any frame (beginMessage(); endMessage()) after another message on a deflate connection with context takeover
is written as an RSV1 frame with no payload at all (zlib's sync flush emits nothing when nothing was fed since the last flush); the receiver appends
00 00 ff ff, its inflater fails on the NEXT message.   usage: PYTHONPATH=<tree>/src python c12c_probe.py"""
import zlib
from autobahn.websocket.compress_deflate import PerMessageDeflate
bad = 0
for plan in ([(b"hello hello", True), (b"", False), (b"after", True)], [(b"", False), (b"x", True)]):
    snd = PerMessageDeflate(False, False, False, 15, 15, 8); rcv = PerMessageDeflate(True, False, False, 15, 15, 8)
    out = []
    try:
        for m, feed in plan:
            snd.start_compress_message()
            p = (snd.compress_message_data(m) if feed else b"") + snd.end_compress_message()
            rcv.start_decompress_message()
            out.append((p.hex(), rcv.decompress_message_data(p) + (rcv.end_decompress_message() or b"")))
        ok = [x[1] for x in out] == [m for m, _ in plan]
    except zlib.error as e:
        ok = False
        out.append(f"zlib.error: {e}")
    print(f"messages {[(m, 'fed' if f else 'no frame') for m, f in plan]} -> (wire, received) {out} {'ok' if ok else 'BROKEN'}")
    bad += not ok
print("DEFECT: a frame-less empty message breaks the compressed stream" if bad else "ok")
raise SystemExit(1 if bad else 0)
