# probe (dev only): a message with a forwarding principal without authid can be built and serialized, but not read back
import sys
import txaio; txaio.use_asyncio()
sys.path.insert(0, sys.argv[1])
from autobahn.wamp import message
from autobahn.wamp.serializer import JsonSerializer
ff = [{"session": 1, "authid": None, "authrole": "r"}]
ser = JsonSerializer()
bad = []
for mk in (lambda: message.Call(1, "a.b", forward_for=ff), lambda: message.Publish(1, "a.b", forward_for=ff), lambda: message.Error(48, 1, "a.b", forward_for=ff),
           lambda: message.Subscribe(1, "a.b", forward_for=ff), lambda: message.Yield(1, forward_for=ff), lambda: message.Unregister(1, 2, forward_for=ff)):
    msg = mk()
    data, is_bin = ser.serialize(msg)
    try:
        back = ser.unserialize(data, is_bin)[0]
        ok = back == msg
    except Exception as e:
        ok = False
        bad.append(f"{type(msg).__name__}: {type(e).__name__}: {str(e)[:70]}")
print("READ BACK" if not bad else "NOT READ BACK:\n  " + "\n  ".join(bad))
