from wamp_harness import *
s, t = joined()
seen = []
def h1(*a, **k): seen.append(("h1", sorted(k)))
def h2(*a, **k): seen.append(("h2", sorted(k)))
s.subscribe(h1, "com.t", options=types.SubscribeOptions(details=True)); spin(); r1 = t.sent[-1].request
s.subscribe(h2, "com.t"); spin(); r2 = t.sent[-1].request
s.onMessage(message.Subscribed(r1, 77)); s.onMessage(message.Subscribed(r2, 77)); spin()
s.onMessage(message.Event(77, 1, args=[1], kwargs={"a": 1})); spin()
print("F9 handler kwargs:", seen, "-> h2 (no details requested) got 'details':", "details" in seen[1][1])
