"""Dev-only (Twisted): client onConnect() returns a Deferred; the connection is lost before it fires."""
import txaio; txaio.use_twisted()
import base64, hashlib
from twisted.internet import defer, task
from twisted.internet.error import ConnectionLost
from twisted.python.failure import Failure
from twisted.test.proto_helpers import StringTransportWithDisconnection
from autobahn.twisted.websocket import WebSocketClientProtocol, WebSocketClientFactory
events = []
class C(WebSocketClientProtocol):
    def onConnect(self, response):
        self.d = defer.Deferred(); return self.d
    def onOpen(self): events.append("onOpen(state=%s)" % self.state)
    def onClose(self, wasClean, code, reason): events.append("onClose")
f = WebSocketClientFactory("ws://localhost:9000"); f.protocol = C
p = f.buildProtocol(None); t = StringTransportWithDisconnection(); t.protocol = p
p.makeConnection(t)
acc = base64.b64encode(hashlib.sha1(p.websocket_key + b"258EAFA5-E914-47DA-95CA-C5AB0DC85B11").digest())
p.dataReceived(b"HTTP/1.1 101 Switching Protocols\r\nUpgrade: websocket\r\nConnection: Upgrade\r\nSec-WebSocket-Accept: " + acc + b"\r\n\r\n")
p.connectionLost(Failure(ConnectionLost()))
p.d.callback(None)
print("L:", events)
