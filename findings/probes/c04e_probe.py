"""C04: request ids are session scoped ("sequential from 1 within the session"), but a session object that joins again keeps counting.
usage: PYTHONPATH=<tree>/src python c04e_probe.py"""
import txaio
txaio.use_twisted()
from autobahn.wamp import message, role
from autobahn.wamp.protocol import ApplicationSession
from autobahn.wamp.serializer import JsonSerializer

class T:
    def __init__(self): self.sent = []; self._serializer = JsonSerializer(); self.transport_details = None; self.closed = False
    def send(self, msg): self.sent.append(msg)
    def isOpen(self): return not self.closed
    def close(self): pass
    def abort(self): pass

class S(ApplicationSession):
    def onLeave(self, details): pass       # keep the transport, join again later

t = T(); s = S(); s.onOpen(t)
roles = {"broker": role.RoleBrokerFeatures(), "dealer": role.RoleDealerFeatures()}
ids = []
for sess in (1, 2):
    s.join("realm1") if sess > 1 else None
    s.onMessage(message.Welcome(1000 + sess, roles))
    for i in range(2):
        s.call("com.x"); ids.append((sess, [m for m in t.sent if isinstance(m, message.Call)][-1].request))
    s.onMessage(message.Goodbye())
print("request ids per session:", ids)
bad = [x for x in ids if x[0] == 2][0][1] != 1
print("DEFECT: second session does not start at request id 1" if bad else "ok")
raise SystemExit(1 if bad else 0)
