"""Dev-only: a RawSocket message of exactly 2**24 octets (peer announced length exponent 15): what goes on the wire on both frameworks."""
import sys, struct
import txaio; txaio.use_asyncio()
from autobahn.asyncio.rawsocket import PrefixProtocol

class T:
    def __init__(self): self.w = []
    def write(self, d): self.w.append(bytes(d[:8]))

p = PrefixProtocol(); p.transport = T(); p.max_length_send = 2 ** (15 + 9)
for n in (2 ** 24 - 1, 2 ** 24):
    p.transport.w.clear()
    try:
        p.sendString(b"x" * n)
        hdr = p.transport.w[0]
        print(f"asyncio sendString({n} octets): header {hdr.hex()} -> frame type {hdr[0] & 7}, length field {int.from_bytes(hdr[1:4], 'big')}")
    except Exception as e:
        print(f"asyncio sendString({n} octets): raises {type(e).__name__}: {e}")
from twisted.protocols.basic import Int32StringReceiver
q = Int32StringReceiver(); q.transport = T(); q.MAX_LENGTH = 2 ** 24
for n in (2 ** 24 - 1, 2 ** 24):
    q.transport.w.clear()
    q.sendString(b"x" * n)
    hdr = q.transport.w[0]
    print(f"twisted sendString({n} octets): first 4 octets {hdr[:4].hex()} -> RawSocket reads frame type {hdr[0] & 7}, length {int.from_bytes(hdr[1:4], 'big')}")
