"""Dev-only: three C18 candidates on the caller/callee mapping."""
from wamp_harness import *
from autobahn.wamp import error as wamp_error
from autobahn.wamp.exception import ApplicationError
from autobahn.wamp.protocol import BaseSession

# (B) decorating a subclass of a decorated class
@wamp_error("com.a")
class A(Exception): pass
@wamp_error("com.b")
class B(A): pass
print("B: A._wampuris =", [p.uri() for p in A._wampuris], " B._wampuris is A._wampuris:", B._wampuris is A._wampuris)
s = BaseSession(); s.define(B)
m = s._message_from_exception(message.Call.MESSAGE_TYPE, 1, B("x"))
print("B: B() is sent as", m.error, "| com.b ->", s._uri_to_ecls.get("com.b"), "| com.a ->", s._uri_to_ecls.get("com.a"))

# (C) registered class whose instances are falsy
class Falsy(Exception):
    def __len__(self): return 0
s = BaseSession(); s.define(Falsy, "com.falsy")
e = s._exception_from_message(message.Error(message.Call.MESSAGE_TYPE, 1, "com.falsy", args=[1]))
print("C: registered falsy class comes back as", type(e).__name__)

# (D) kwargs named like the generic constructor's own parameter
for kw in ({"error": "disk full"}, {"self": 1}):
    try:
        e = s._exception_from_message(message.Error(message.Call.MESSAGE_TYPE, 1, "com.x", args=[], kwargs=kw))
        print("D:", kw, "->", type(e).__name__, getattr(e, "kwargs", None))
    except Exception as ex:
        print("D:", kw, "-> RAISES", type(ex).__name__, ex)
