from wamp_harness import *
s, t = joined()
got = []
d = s.call("com.x", options=types.CallOptions(on_progress=lambda r: got.append(r), details=True)); spin()
req = t.sent[-1].request
try:
    s.onMessage(message.Result(req, args=[1], progress=True)); spin()
    print("F8 progressive RESULT without kwargs delivered:", got)
except Exception as e:
    print("F8 escaped from onMessage:", type(e).__name__, e)
