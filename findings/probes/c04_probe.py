from wamp_harness import *
s, t = joined()
got = []
d = s.call("com.x", options=types.CallOptions(on_progress=lambda r: got.append(r), details=True)); spin()
req = t.sent[-1].request
try:
    s.onMessage(message.Result(req, args=[1], progress=True)); spin()
    print("F8 progressive RESULT without kwargs delivered:", got)
except Exception as e:
    print("F8 escaped from onMessage:", type(e).__name__, e)

# --- progressive RESULT for a call issued without CallOptions
def progressive_without_options():
    s, t = joined()
    d = s.call("com.x"); spin()
    rid = [m for m in t.sent if isinstance(m, message.Call)][-1].request
    try:
        s.onMessage(message.Result(rid, args=[1], progress=True)); spin()
        print("progressive RESULT without options: no exception; call still pending:", rid in s._call_reqs)
    except Exception as e:
        print("progressive RESULT without options raised", type(e).__name__, e)
progressive_without_options()
