"""Dev-only: K sendPreparedMessage vs the send limit; L client onOpen after onClose; O SCRAM with a non-ASCII authid."""
from harness import *
from autobahn.exception import PayloadExceededError

p, t = open_server(maxMessagePayloadSize=10)
t.written.clear()
try:
    p.sendMessage(b"x" * 100, True); print("K: sendMessage NOT refused")
except PayloadExceededError: print("K: sendMessage refused,", len(b"".join(t.written)), "octets written")
m = p.factory.prepareMessage(b"x" * 100, isBinary=True)
try:
    p.sendPreparedMessage(m); spin(); print("K: sendPreparedMessage NOT refused,", len(b"".join(t.written)), "octets written")
except PayloadExceededError: print("K: sendPreparedMessage refused")

# L
events = []
class C(WebSocketClientProtocol):
    def onConnect(self, response):
        self.fut = loop.create_future(); return self.fut
    def onOpen(self): events.append("onOpen state=%s" % self.state)
    def onClose(self, wasClean, code, reason): events.append("onClose")
f = WebSocketClientFactory("ws://localhost:9000"); f.protocol = C
c = f(); tc = FakeTransport(); c.connection_made(tc); spin()
acc = base64.b64encode(hashlib.sha1(c.websocket_key + b"258EAFA5-E914-47DA-95CA-C5AB0DC85B11").digest())
feed(c, b"HTTP/1.1 101 Switching Protocols\r\nUpgrade: websocket\r\nConnection: Upgrade\r\nSec-WebSocket-Accept: " + acc + b"\r\n\r\n")
c.connection_lost(ConnectionResetError()); spin()
c.fut.set_result(None); spin()
print("L:", events)

# O
from unittest.mock import Mock
from autobahn.wamp import auth, types
import base64 as b64
sc = auth.AuthScram(password="pw", authid="jürgen"); sc.authextra
ch = types.Challenge("scram", {"nonce": sc._client_nonce + "srv", "kdf": "pbkdf2", "salt": b64.b64encode(b"0123456789abcdef").decode(), "iterations": 4096})
try:
    sc.on_challenge(Mock(), ch); print("O: proof computed")
except Exception as e:
    print("O: authid 'jürgen' ->", type(e).__name__, str(e)[:80])
