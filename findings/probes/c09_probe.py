"""NVX vs pure-Python validator: a chunk fed after a rejecting chunk."""
import importlib, sys, types
import txaio; txaio.use_asyncio()
import autobahn.websocket as w
print("HAS_NVX", getattr(w, "HAS_NVX", None), "USES_NVX", w.USES_NVX)
from autobahn.nvx._utf8validator import Utf8Validator as NV
# pure python class: exec the module with USES_NVX False
src = open("/repo/src/autobahn/websocket/utf8validator.py").read().replace("from autobahn.websocket import USES_NVX", "USES_NVX = False")
ns = {}; exec(compile(src, "utf8validator_py", "exec"), ns)
PV = ns["Utf8Validator"]
for cls in (PV, NV):
    v = cls(); v.reset()
    print(cls.__module__, "one chunk   :", v.validate(b"ab\xffcd"))
    v = cls(); v.reset()
    print(cls.__module__, "split chunks:", v.validate(b"ab\xff"), v.validate(b"cd"))
