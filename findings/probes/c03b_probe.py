"""Dev-only: a payload message built with kwargs only (args left at its default None): marshal -> serialize -> unserialize -> parse."""
import txaio; txaio.use_asyncio()
from autobahn.wamp import message
from autobahn.wamp.serializer import JsonSerializer
ser = JsonSerializer()
cases = {
 "Publish": message.Publish(1, "com.t", kwargs={"a": 1}),
 "Call": message.Call(1, "com.p", kwargs={"a": 1}),
 "Event": message.Event(1, 2, kwargs={"a": 1}),
 "Result": message.Result(1, kwargs={"a": 1}),
 "Invocation": message.Invocation(1, 2, kwargs={"a": 1}),
 "Yield": message.Yield(1, kwargs={"a": 1}),
 "Error": message.Error(48, 1, "com.e", kwargs={"a": 1}),
}
for name, m in cases.items():
    raw = m.marshal()
    data, isbin = ser.serialize(m)
    try:
        back = ser.unserialize(data, isbin)[0]
        print(name, "wire", data.decode(), "->", "EQUAL" if back == m else f"DIFFERENT args={back.args!r} kwargs={back.kwargs!r}")
    except Exception as e:
        print(name, "wire", data.decode(), "-> parse raises", type(e).__name__, e)
