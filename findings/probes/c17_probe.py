"""#19: auto-ping timers act on a connection that is no longer open."""
from harness import *
import struct
class SP(WebSocketServerProtocol):
    def onClose(self, wasClean, code, reason):
        print("   onClose(wasClean=%s, code=%s, reason=%s)" % (wasClean, code, reason))
p, t = open_server(autoPingInterval=10, autoPingTimeout=5)
p.__class__ = SP
p._sendAutoPing()
print("ping timeout armed:", p.autoPingTimeoutCall is not None)
mask = b"\x01\x02\x03\x04"; pl = struct.pack("!H", 1000)
feed(p, b"\x88\x82" + mask + bytes(a ^ b for a, b in zip(pl, mask * 2)))
print("after peer close: state", p.state, "wasClean", p.wasClean, "timeout still armed:", p.autoPingTimeoutCall is not None)
p.onAutoPingTimeout()      # the pending timer fires before the transport reports connectionLost
print("after ping timeout: wasClean", p.wasClean, "reason", p.wasNotCleanReason)
p.connection_lost(None)
# second history: we initiated the close (CLOSING); auto ping fires -> arms a timeout for a ping that was never sent
p, t = open_server(autoPingInterval=10, autoPingTimeout=5)
p.sendClose(1000)
n = len(t.written)
p._sendAutoPing()
print("CLOSING: ping written:", len(t.written) > n, "ping timeout armed:", p.autoPingTimeoutCall is not None)
