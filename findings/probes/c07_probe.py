"""#10/#11: exceptions escaping the handshake entry points."""
from harness import *
import hyperlink
print("URLParseError bases:", hyperlink.URLParseError.__mro__[1:3])
# 10: client, response header with a non-UTF-8 octet
p, t = client(); spin()
try:
    p._dataReceived(b"HTTP/1.1 101 Switching Protocols\r\nX: \xff\r\n\r\n")
    print("F10 no exception; state", p.state)
except Exception as e:
    print("F10 escaped:", type(e).__name__, e)
# 11: server status page
for q in (b"/?redirect=x&after=abc", b"/?redirect=http://[x"):
    p, t = server()
    try:
        p._dataReceived(b"GET " + q + b" HTTP/1.1\r\nHost: localhost\r\n\r\n")
        print("F11", q, "no exception; state", p.state, t.written[:1])
    except Exception as e:
        print("F11", q, "escaped:", type(e).__name__, e)
