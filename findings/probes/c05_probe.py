from harness import *
import struct
# 16: sendPreparedMessage after our close frame
p, t = open_server()
m = p.factory.prepareMessage(b"hello")
p.sendClose(1000)
n = len(t.written)
try:
    p.sendPreparedMessage(m)
    print("F16 data frame written after close frame:", len(t.written) > n, "state", p.state)
except Exception as e:
    print("F16 refused:", type(e).__name__)

# 17: async onConnect resolves after open handshake timeout -> state back to OPEN
class SP(WebSocketServerProtocol):
    def onConnect(self, request):
        self.fut = loop.create_future()
        return self.fut
    def onOpen(self):
        print("   onOpen called in state", self.state)
p, t = server(SP)
feed(p, REQ)
print("F17 state after request (pending onConnect):", p.state)
p.onOpenHandshakeTimeout()
print("F17 state after open-handshake timeout:", p.state)
p.fut.set_result(None); spin()
print("F17 state after late onConnect result:", p.state, "(3 = OPEN => moved CLOSED -> OPEN)")

# 18: client replies to server-initiated close; no timer armed
p, t = open_client()
feed(p, b"\x88\x02" + struct.pack("!H", 1000))
print("F18 client state after peer close:", p.state, "closeHandshakeTimeoutCall", p.closeHandshakeTimeoutCall,
      "serverConnectionDropTimeoutCall", p.serverConnectionDropTimeoutCall)
