"""Dev-only confirmation of the C19 finding: WAMP-SCRAM with kdf=pbkdf2 and a base64 (str) salt, as sent by a router."""
import base64, hashlib, hmac
from unittest.mock import Mock
from autobahn.wamp import auth, types

scram = auth.AuthScram(password="p4ssw0rd", authid="username")
scram.authextra
salt_raw = b"1234567890abcdef"
ch = types.Challenge("scram", {"nonce": scram._client_nonce + "srv", "kdf": "pbkdf2", "salt": base64.b64encode(salt_raw).decode(), "iterations": 4096})
try:
    proof = scram.on_challenge(Mock(), ch)
except Exception as e:
    print("on_challenge raised", type(e).__name__, e)
else:
    # independent RFC 5802 computation
    sp = hashlib.pbkdf2_hmac("sha256", b"p4ssw0rd", salt_raw, 4096, 32)
    ck = hmac.new(sp, b"Client Key", hashlib.sha256).digest()
    sk = hashlib.sha256(ck).digest()
    cs = hmac.new(sk, scram._auth_message, hashlib.sha256).digest()
    print("proof matches RFC 5802:", base64.b64decode(proof) == bytes(a ^ b for a, b in zip(ck, cs)))
