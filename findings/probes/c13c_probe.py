"""C13: Twisted RawSocket accepts an opening handshake whose reserved octets (3, 4) are not zero (asyncio refuses it).
usage: PYTHONPATH=<tree>/src python c13c_probe.py"""
import txaio
txaio.use_twisted()
from twisted.internet.testing import StringTransport
from autobahn.twisted.rawsocket import WampRawSocketServerFactory, WampRawSocketClientFactory
from autobahn.wamp.protocol import ApplicationSession

opened = []
class S(ApplicationSession):
    def onOpen(self, transport):
        opened.append(type(transport).__name__)

bad = 0
for role, fac, hs in (("server", WampRawSocketServerFactory(S), b"\x7f\xf1\x01\x00"), ("client", WampRawSocketClientFactory(S), None)):
    del opened[:]
    p = fac.buildProtocol(None)
    if hs is None:
        hs = bytes([0x7F, 0xF0 | fac._serializer.RAWSOCKET_SERIALIZER_ID, 0, 0xFF])
    t = StringTransport()
    p.makeConnection(t)
    p.dataReceived(hs)
    att = bool(opened)
    print(f"twisted {role}: handshake {hs.hex()} -> session attached={att} transport disconnecting={t.disconnecting or getattr(t, 'aborting', False)}")
    bad += att
print("DEFECT: reserved octets ignored" if bad else "ok: refused")
raise SystemExit(1 if bad else 0)
