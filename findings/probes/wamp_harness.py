"""dev-only: ApplicationSession over a mock transport."""
import txaio; txaio.use_asyncio()
import asyncio
loop = asyncio.new_event_loop(); asyncio.set_event_loop(loop); txaio.config.loop = loop
from autobahn.wamp import message, role, types
from autobahn.wamp.protocol import ApplicationSession
from autobahn.wamp.serializer import JsonSerializer
class MockTransport:
    def __init__(self):
        self.sent = []; self._serializer = JsonSerializer(); self.transport_details = None; self.closed = False
    def send(self, msg):
        self._serializer.serialize(msg); self.sent.append(msg)
    def isOpen(self): return not self.closed
    def close(self): self.closed = True
    def abort(self): self.closed = True
    @property
    def is_closed(self): return None
def joined(cls=ApplicationSession):
    s = cls(); t = MockTransport(); s.onOpen(t); spin()
    s.onMessage(message.Welcome(1, {"broker": role.RoleBrokerFeatures(), "dealer": role.RoleDealerFeatures()})); spin()
    return s, t
def spin(n=5):
    for _ in range(n): loop.run_until_complete(asyncio.sleep(0))
