"""Dev-only: subscribe(obj) with decorated handler methods on an object whose bool() is False."""
import sys; sys.path.insert(0, "/verif/findings/probes")
from wamp_harness import *
from autobahn import wamp

class Falsy:
    def __init__(self): self.got = []
    def __len__(self): return 0
    @wamp.subscribe("com.topic")
    def on_event(self, x): self.got.append(x)

s, t = joined()
o = Falsy()
errs = []
s.onUserError = lambda f, m: errs.append((m, str(getattr(f, "value", f))))
d = s.subscribe(o); spin()
req = [m for m in t.sent if isinstance(m, message.Subscribe)][0]
s.onMessage(message.Subscribed(req.request, 77)); spin()
s.onMessage(message.Event(77, 1, args=[42])); spin()
print("handler received:", o.got, "| user errors:", errs[:1])
