"""C03: a transparent payload of zero octets (e.g. an MQTT message with an empty body) is lost by marshal(): `if self.payload:` treats b"" as
"no payload", the message goes out as an ordinary message without payload and without its enc_algo.
usage: PYTHONPATH=<tree>/src python c03c_probe.py"""
from autobahn.wamp import message as M
cases = [M.Call(1, "a.b", payload=b"", enc_algo="mqtt"), M.Publish(1, "a.b", payload=b"", enc_algo="mqtt"), M.Event(1, 2, payload=b"", enc_algo="mqtt"),
         M.Result(1, payload=b"", enc_algo="mqtt"), M.Yield(1, payload=b"", enc_algo="mqtt"), M.Invocation(1, 2, payload=b"", enc_algo="mqtt"),
         M.Error(M.Call.MESSAGE_TYPE, 1, "a.b", payload=b"", enc_algo="mqtt")]
bad = 0
for m in cases:
    raw = m.marshal()
    back = type(m).parse(raw)
    ok = back.payload == b"" and back.enc_algo == "mqtt"
    print(f"{type(m).__name__}: marshal -> {raw} ; parsed back payload={back.payload!r} enc_algo={back.enc_algo!r} {'ok' if ok else 'LOST'}")
    bad += not ok
print("DEFECT: empty payload lost" if bad else "ok")
raise SystemExit(1 if bad else 0)
