"""C14: "the result of start() completes ... with an error when main fails" -- a failing main is handled like a failed connection attempt:
the component reconnects (the join has just reset the retry budget, the first attempt has no delay: a hot loop) and start() never fails.
usage: PYTHONPATH=<tree>/src python c14e_probe.py"""
import txaio
txaio.use_twisted()
from twisted.internet.task import Clock
from autobahn.twisted.component import Component

clock = Clock()
txaio.config.loop = clock
attempts = []

def main(reactor, session):
    raise ValueError("main failed")

class C(Component):
    def _connect_transport(self, reactor, transport, session_factory, done):
        if len(attempts) >= 25:
            raise SystemExit(f"connection attempts: {len(attempts)} and counting (all at virtual time {clock.seconds()}); start() result: {res or 'still pending'}\nDEFECT: main failed but the component reconnects / start() does not fail with main's error")
        s = session_factory()
        attempts.append(s)
        s.disconnect = lambda: None
        s.fire("join", s, None)      # the session joined: main runs (and raises)
        return txaio.create_future_success(None)

c = C(transports="ws://localhost:1/ws", realm="r", main=main)
c._transports[0].max_retries = 1
res = []
d = c.start(clock)
d.addCallbacks(lambda x: res.append(("ok", x)), lambda f: res.append(("error", repr(f.value))))
for i in range(50):
    clock.advance(0.01)
print(f"connection attempts: {len(attempts)}; start() result: {res or 'still pending'}")
bad = len(attempts) != 1 or not res or res[0][0] != "error" or "main failed" not in res[0][1]
print("DEFECT: main failed but the component reconnects / start() does not fail with main's error" if bad else "ok")
raise SystemExit(1 if bad else 0)
