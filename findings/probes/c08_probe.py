"""C08 clusters R1..R5: peer input that raises AssertionError (not ProtocolError) out of Message.parse / ISerializer.unserialize."""
import txaio; txaio.use_asyncio()
import json
from autobahn.wamp.serializer import JsonSerializer
from autobahn.wamp.exception import ProtocolError, InvalidUriError
ser = JsonSerializer()
CASES = {
 "R1 forward_for elem not dict (Subscribe)": [32, 1, {"forward_for": [1]}, "a.b"],
 "R1 forward_for elem not dict (Unsubscribe)": [34, 1, 2, {"forward_for": [1]}],
 "R2 enc_key falsy non-str (Publish)": [16, 1, {"enc_key": 0}, "a.b", "\u0000eHg="],
 "R2 enc_key without enc_algo (Result)": [50, 1, {"enc_key": "k"}, "\u0000eHg="],
 "R3 str payload (Publish)": [16, 1, {}, "a.b", "x"],
 "R4 Welcome authextra not dict": [2, 1, {"roles": {"broker": {}}, "authextra": 5}],
 "R4 Welcome realm not str": [2, 1, {"roles": {"broker": {}}, "realm": 7}],
 "R5 Unsubscribed subscription with request != 0": [35, 1, {"subscription": 1}],
 "R5 Unregistered registration with request != 0": [67, 1, {"registration": 1}],
}
for name, raw in CASES.items():
    try:
        m = ser.unserialize(json.dumps(raw).encode(), False)
        print(f"{name}: accepted -> {m[0].__class__.__name__}")
    except (ProtocolError, InvalidUriError) as e:
        print(f"{name}: {type(e).__name__} (ok)")
    except Exception as e:
        print(f"{name}: ESCAPED {type(e).__name__}")
