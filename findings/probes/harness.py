"""Development-only dynamic probes used to CONFIRM that what a static rule reports is a real defect.
Not part of any registered check (see DESIGN.md section 7)."""
import asyncio, sys, os, base64, hashlib
import txaio
txaio.use_asyncio()
loop = asyncio.new_event_loop()
asyncio.set_event_loop(loop)
txaio.config.loop = loop
from autobahn.asyncio.websocket import WebSocketServerProtocol, WebSocketServerFactory, WebSocketClientProtocol, WebSocketClientFactory


class FakeTransport:
    def __init__(self):
        self.written = []
        self.closed = False
        self.aborted = False
    def write(self, d): self.written.append(bytes(d))
    def close(self): self.closed = True
    def abort(self): self.aborted = True
    def get_extra_info(self, k, default=None):
        return {"peername": ("127.0.0.1", 1234), "sockname": ("127.0.0.1", 9000)}.get(k, default)
    def is_closing(self): return self.closed or self.aborted
    def pause_reading(self): pass
    def resume_reading(self): pass


def server(proto_cls=WebSocketServerProtocol, **opts):
    f = WebSocketServerFactory("ws://localhost:9000")
    f.setProtocolOptions(**opts)
    f.protocol = proto_cls
    p = f()
    t = FakeTransport()
    p.connection_made(t)
    return p, t


def client(proto_cls=WebSocketClientProtocol, **opts):
    f = WebSocketClientFactory("ws://localhost:9000")
    f.setProtocolOptions(**opts)
    f.protocol = proto_cls
    p = f()
    t = FakeTransport()
    p.connection_made(t)
    return p, t


def feed(p, data):
    p.data_received(data)
    spin()


def spin(n=5):
    for _ in range(n):
        loop.run_until_complete(asyncio.sleep(0))


REQ = (b"GET / HTTP/1.1\r\nHost: localhost:9000\r\nUpgrade: websocket\r\nConnection: Upgrade\r\n"
       b"Sec-WebSocket-Key: dGhlIHNhbXBsZSBub25jZQ==\r\nSec-WebSocket-Version: 13\r\n\r\n")


def open_server(**opts):
    p, t = server(**opts)
    feed(p, REQ)
    assert p.state == p.STATE_OPEN, p.state
    return p, t


def open_client(**opts):
    p, t = client(**opts)
    spin()
    key = p.websocket_key
    acc = base64.b64encode(hashlib.sha1(key + b"258EAFA5-E914-47DA-95CA-C5AB0DC85B11").digest())
    feed(p, b"HTTP/1.1 101 Switching Protocols\r\nUpgrade: websocket\r\nConnection: Upgrade\r\nSec-WebSocket-Accept: " + acc + b"\r\n\r\n")
    assert p.state == p.STATE_OPEN, p.state
    return p, t
