"""C01: an empty message sent through the streaming API (beginMessage(); endMessage()) goes out as a lone FIN continuation frame
(no initial data frame): not a well-formed RFC 6455 frame sequence; the peer fails the connection.
usage: PYTHONPATH=<tree>/src python c01c_probe.py"""
import txaio
txaio.use_twisted()
from twisted.internet.testing import StringTransport
from autobahn.twisted.websocket import WebSocketServerFactory, WebSocketServerProtocol

got = []
class P(WebSocketServerProtocol):
    def onMessage(self, payload, isBinary):
        got.append((payload, isBinary))

def server():
    f = WebSocketServerFactory("ws://localhost:9000"); f.protocol = P
    p = f.buildProtocol(None); t = StringTransport(); p.makeConnection(t)
    p.dataReceived(b"GET / HTTP/1.1\r\nHost: localhost:9000\r\nUpgrade: websocket\r\nConnection: Upgrade\r\n"
                   b"Sec-WebSocket-Key: dGhlIHNhbXBsZSBub25jZQ==\r\nSec-WebSocket-Version: 13\r\n\r\n")
    t.clear()
    return p, t

bad = 0
for binary in (False, True):
    p, t = server()
    p.beginMessage(isBinary=binary)
    p.endMessage()
    wire = t.value()
    first = wire[0]
    ok = (first & 0x0F) == (2 if binary else 1) and first & 0x80
    print(f"beginMessage(isBinary={binary}); endMessage() -> wire {wire.hex()} : first frame opcode {first & 0x0F} FIN {bool(first & 0x80)} -> {'ok' if ok else 'MALFORMED (continuation frame outside a message)'}")
    bad += not ok
print("DEFECT" if bad else "ok")
raise SystemExit(1 if bad else 0)
