"""C08: SUBSCRIBE accepts a topic URI with empty components whatever the matching policy ("a..b" with exact matching), unlike REGISTER.
usage: PYTHONPATH=<tree>/src python c08g_probe.py"""
from autobahn.wamp import message as M
from autobahn.wamp.exception import ProtocolError, InvalidUriError
want = {("exact", "a.b"): 1, ("exact", "a..b"): 0, ("exact", "a.b."): 0, ("prefix", "a.b"): 1, ("prefix", "a.b."): 1, ("prefix", "a..b"): 0,
        ("wildcard", "a..b"): 1, ("wildcard", "a.b"): 1, (None, "a..b"): 0, (None, "a.b"): 1}
bad = 0
for cls, code in ((M.Subscribe, 32), (M.Register, 64)):
    for (match, uri), ok in want.items():
        try:
            cls.parse([code, 1, {"match": match} if match else {}, uri]); got = 1
        except (ProtocolError, InvalidUriError):
            got = 0
        flag = "" if got == ok else "   <-- WRONG"
        bad += got != ok
        print(f"{cls.__name__} match={match} uri={uri!r}: {'accepted' if got else 'ProtocolError'}{flag}")
print(f"DEFECT: {bad} wrong verdicts" if bad else "ok")
raise SystemExit(1 if bad else 0)
