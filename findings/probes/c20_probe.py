"""Dev-only: an encrypted INVOCATION whose result cannot be encrypted is answered in clear."""
from wamp_harness import *
from autobahn.wamp import types
from autobahn.wamp.cryptobox import KeyRing, Key
import nacl.utils, nacl.public, binascii

import base64
kr = KeyRing(default_key=base64.b64encode(nacl.utils.random(32)).decode())
callee, t = joined(); callee.set_payload_codec(kr)
caller_kr = kr
def ep():
    return {1, 2, 3}          # a set: the cryptobox codec serializes the payload with JSON -> cannot be encoded
callee.register(ep, "com.x.proc"); callee.onMessage(message.Registered(t.sent[-1].request, 5)); spin()
enc = caller_kr.encode(True, "com.x.proc", [], {})
t.sent.clear()
# the transport's own serializer in this harness is JSON too; use a transport that can carry a set to see what goes out
t._serializer = type("S", (), {"serialize": lambda self, m: (b"", True), "SERIALIZER_ID": "cbor"})()
callee.onMessage(message.Invocation(200, 5, payload=enc.payload, enc_algo=enc.enc_algo, enc_serializer=enc.enc_serializer, enc_key=enc.enc_key)); spin()
for m in t.sent:
    print("T:", type(m).__name__, "enc_algo=", getattr(m, "enc_algo", None), "args=", getattr(m, "args", None), "payload=", (getattr(m, "payload", None) or b"")[:8])
