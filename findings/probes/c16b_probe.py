"""Dev-only: decompression size limit end to end (server with permessage-deflate accept max_message_size=L)."""
import sys, os, struct, zlib, itertools
sys.path.insert(0, "/verif/findings/probes")
from harness import *
from autobahn.websocket.compress import PerMessageDeflateOffer, PerMessageDeflateOfferAccept

REQX = REQ.replace(b"\r\n\r\n", b"\r\nSec-WebSocket-Extensions: permessage-deflate\r\n\r\n")


class S(WebSocketServerProtocol):
    def onConnect(self, request): self.got = []; self.closed = None
    def onMessage(self, payload, isBinary): self.got.append(bytes(payload))
    def onClose(self, wasClean, code, reason): self.closed = (wasClean, code, reason)


def mk(limit, failByDrop):
    def accept(offers):
        for o in offers:
            if isinstance(o, PerMessageDeflateOffer):
                return PerMessageDeflateOfferAccept(o, max_message_size=limit)
    p, t = server(S, perMessageCompressionAccept=accept, failByDrop=failByDrop)
    feed(p, REQX)
    assert p.state == p.STATE_OPEN and b"permessage-deflate" in b"".join(t.written), b"".join(t.written)
    t.written.clear()
    return p, t


def frame(opcode, payload, fin=True, rsv1=False):
    b0 = (0x80 if fin else 0) | (0x40 if rsv1 else 0) | opcode
    mask = b"\x01\x02\x03\x04"
    l = len(payload)
    if l < 126: h = bytes([b0, 0x80 | l])
    elif l < 65536: h = bytes([b0, 0x80 | 126]) + struct.pack("!H", l)
    else: h = bytes([b0, 0x80 | 127]) + struct.pack("!Q", l)
    return h + mask + bytes(c ^ mask[i & 3] for i, c in enumerate(payload))


problems = []
runs = 0
for limit, fbd, nfrag, chunk in itertools.product([50, 100, 1000], [True, False], [1, 2, 3], [None, 1, 7]):
    for size in (limit - 1, limit, limit + 1, limit * 5 + 3):
        runs += 1
        p, t = mk(limit, fbd)
        comp = zlib.compressobj(zlib.Z_DEFAULT_COMPRESSION, zlib.DEFLATED, -15)
        def cmsg(m):
            d = comp.compress(m) + comp.flush(zlib.Z_SYNC_FLUSH)
            return d[:-4]
        m1 = bytes((i * 7 + 3) & 0xFF for i in range(size))
        c1 = cmsg(m1)
        cut = [len(c1) * k // nfrag for k in range(nfrag + 1)]
        wire = b"".join(frame(2 if k == 0 else 0, c1[cut[k]:cut[k + 1]], fin=(k == nfrag - 1), rsv1=(k == 0)) for k in range(nfrag))
        m2 = b"second message " * 2
        wire2 = frame(2, cmsg(m2), rsv1=True)
        data = wire + wire2
        try:
            if chunk is None:
                feed(p, data)
            else:
                for i in range(0, len(data), chunk):
                    if p.state == p.STATE_CLOSED: break
                    feed(p, data[i:i + chunk])
        except Exception as e:
            problems.append(f"limit={limit} size={size} frags={nfrag} chunk={chunk} drop={fbd}: exception escaped {type(e).__name__}: {e}")
            continue
        over = size > limit
        if not over:
            if p.got != [m1, m2]:
                problems.append(f"limit={limit} size={size} frags={nfrag} chunk={chunk} drop={fbd}: within limit but got {[len(x) for x in p.got]}")
        else:
            if p.got:
                problems.append(f"limit={limit} size={size} frags={nfrag} chunk={chunk} drop={fbd}: over limit but delivered {[len(x) for x in p.got]} (truncated={p.got[0] != m1})")
            out = b"".join(t.written)
            if fbd:
                if not (t.aborted or t.closed):
                    problems.append(f"limit={limit} size={size} frags={nfrag} chunk={chunk} drop=True: connection not dropped")
            else:
                if not (len(out) >= 4 and out[0] == 0x88 and struct.unpack("!H", out[2:4])[0] == 1009):
                    problems.append(f"limit={limit} size={size} frags={nfrag} chunk={chunk} drop=False: no close 1009 sent, wrote {out[:8].hex()} state={p.state}")
print("runs", runs, "problems", len(problems))
for x in problems[:12]: print("  ", x)
