"""C09: an empty chunk fed after a rejecting chunk is reported valid again (whole input b'\\xff' vs split [b'\\xff', b'']).
usage: PYTHONPATH=<tree>/src AUTOBAHN_USE_NVX=0 python c09c_probe.py   (pure-Python validator; the NVX binary in /venv is pre-built)"""
import os
os.environ.setdefault("AUTOBAHN_USE_NVX", "0")
from autobahn.websocket.utf8validator import Utf8Validator
v = Utf8Validator()
v.reset()
a = v.validate(b"\xff")
b = v.validate(b"")
print(type(v).__module__, "validate(b'\\xff') ->", a, "; then validate(b'') ->", b)
bad = b[0] is True
print("DEFECT: verdict flips back to valid" if bad else "ok")
raise SystemExit(1 if bad else 0)
