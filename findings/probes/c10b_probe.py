"""Dev-only confirmation: a successful return value that exceeds the transport limit must still yield exactly one terminal reply."""
import sys; sys.path.insert(0, "/verif/findings/probes")
from wamp_harness import *
from autobahn.exception import PayloadExceededError

class LimitTransport(MockTransport):
    LIMIT = 1000
    def send(self, msg):
        data, _ = self._serializer.serialize(msg)
        if len(data) > self.LIMIT:
            raise PayloadExceededError(f"tried to send WAMP message with serialized size {len(data)} exceeding limit {self.LIMIT}")
        self.sent.append(msg)

s = ApplicationSession(); t = LimitTransport(); s.onOpen(t); spin()
s.onMessage(message.Welcome(1, {"broker": role.RoleBrokerFeatures(), "dealer": role.RoleDealerFeatures()})); spin()
f = s.register(lambda: "x" * 5000, "com.big"); spin()
reg = [m for m in t.sent if isinstance(m, message.Register)][0]
s.onMessage(message.Registered(reg.request, 77)); spin()
t.sent.clear()
errs = []
loop.set_exception_handler(lambda l, c: errs.append(c.get("exception")))
s.onMessage(message.Invocation(501, 77)); spin(10)
rep = [m for m in t.sent if isinstance(m, (message.Yield, message.Error))]
print("terminal replies for invocation 501:", [(type(m).__name__, getattr(m, "error", None)) for m in rep], "| loop errors:", errs)
