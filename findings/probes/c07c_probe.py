"""Dev-only: C07 client-side candidates G (response before the request), H (subprotocol checked against the wrong list), I (path parameters)."""
from harness import *
from autobahn.websocket.types import ConnectingRequest
from autobahn.websocket.util import parse_url

# I
print("I: parse_url('ws://example.com:1/~user/ws;v=1') resource =", parse_url("ws://example.com:1/~user/ws;v=1")[3])
print("I: parse_url('ws://example.com:1/a;b/c;d?x=1') resource =", parse_url("ws://example.com:1/a;b/c;d?x=1")[3])

# H
class C(WebSocketClientProtocol):
    def onConnecting(self, details):
        return ConnectingRequest(host="localhost", port=9000, resource="/", protocols=["only-this"])
f = WebSocketClientFactory("ws://localhost:9000", protocols=["other"]); f.protocol = C
p = f(); t = FakeTransport(); p.connection_made(t); spin()
req = b"".join(t.written)
print("H: offered:", [l for l in req.split(b"\r\n") if l.lower().startswith(b"sec-websocket-protocol")])
acc = base64.b64encode(hashlib.sha1(p.websocket_key + b"258EAFA5-E914-47DA-95CA-C5AB0DC85B11").digest())
feed(p, b"HTTP/1.1 101 Switching Protocols\r\nUpgrade: websocket\r\nConnection: Upgrade\r\nSec-WebSocket-Accept: " + acc + b"\r\nSec-WebSocket-Protocol: other\r\n\r\n")
print("H: server selected 'other' (never offered): state", p.state, "in use", getattr(p, "websocket_protocol_in_use", None))

# G
class C2(WebSocketClientProtocol):
    def onConnecting(self, details):
        return loop.create_future()   # never resolves before the server talks
f = WebSocketClientFactory("ws://localhost:9000"); f.protocol = C2
p = f(); t = FakeTransport(); p.connection_made(t); spin()
try:
    feed(p, b"HTTP/1.1 101 x\r\nUpgrade: websocket\r\nConnection: Upgrade\r\nSec-WebSocket-Accept: AAAA\r\n\r\n")
    print("G: no exception; state", p.state, "dropped", t.closed or t.aborted)
except Exception as e:
    print("G: response before the request ->", type(e).__name__, e, "| state", p.state, "dropped", t.closed or t.aborted)
errs = []
loop.set_exception_handler(lambda l, c: errs.append(repr(c.get("exception"))))
p = f(); t = FakeTransport(); p.connection_made(t); spin()
feed(p, b"HTTP/1.1 101 x\r\nUpgrade: websocket\r\nConnection: Upgrade\r\nSec-WebSocket-Accept: AAAA\r\n\r\n")
print("G: exceptions that reached the event loop:", errs, "| state", p.state, "dropped", t.closed or t.aborted)
