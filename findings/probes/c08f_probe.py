"""C08: ids carried inside options / details (publisher, caller, callee, exclude / eligible, forward_for[].session, ...) are only type-checked:
ids outside 0..2^53 are accepted.   usage: PYTHONPATH=<tree>/src python c08f_probe.py"""
from autobahn.wamp import message as M
from autobahn.wamp.exception import ProtocolError
ff = lambda s: [{"session": s, "authid": "a", "authrole": "r"}]
cases = [(M.Event, [36, 1, 2, {"publisher": -1}]), (M.Event, [36, 1, 2, {"publisher": 2 ** 64}]), (M.Call, [48, 1, {"caller": -1}, "a.b"]),
         (M.Result, [50, 1, {"callee": 2 ** 60}]), (M.Yield, [70, 1, {"callee": -7}]), (M.Invocation, [68, 1, 2, {"caller": -1}]),
         (M.Error, [8, 48, 1, {"callee": -1}, "a.b"]), (M.Publish, [16, 1, {"exclude": [-1, 2 ** 80]}, "a.b"]), (M.Publish, [16, 1, {"eligible": [-1]}, "a.b"]),
         (M.Unsubscribed, [35, 0, {"subscription": -7}]), (M.Unregistered, [67, 0, {"registration": 2 ** 70}]),
         (M.Hello, [1, "r", {"roles": {"caller": {}}, "resume-session": -5, "resume-token": "t"}]),
         (M.Subscribe, [32, 1, {"forward_for": ff(-1)}, "a.b"]), (M.Cancel, [49, 1, {"forward_for": ff(2 ** 60)}])]
bad = 0
for cls, w in cases:
    try:
        cls.parse(w); out = "ACCEPTED"; bad += 1
    except ProtocolError as e:
        out = "ProtocolError"
    print(f"{cls.__name__}.parse({w}) -> {out}")
print(f"DEFECT: {bad} messages with out-of-range ids accepted" if bad else "ok")
raise SystemExit(1 if bad else 0)
