"""Dev-only: (E) a handler that unsubscribes itself while the event is being fanned out; (N) progress() after the terminal reply; (F) pending
requests of the pep8 Session when the session ends."""
from wamp_harness import *
from autobahn.wamp.protocol import _SessionShim
from autobahn.wamp import types

s, t = joined()
seen = []
subs = {}
def mk(name, unsub=None):
    def h(*a, **k):
        seen.append(name)
        if unsub: subs[unsub].unsubscribe()
    return h
for name, u in (("A", "A"), ("B", None), ("C", None)):
    d = s.subscribe(mk(name, u), "com.t")
    req = t.sent[-1].request
    s.onMessage(message.Subscribed(req, 77)); spin()
    subs[name] = d.result()
s.onMessage(message.Event(77, 1, args=[1])); spin()
print("E: handlers attached when the event arrived: A B C; invoked:", seen)

# N
s, t = joined()
kept = {}
def ep(x, details=None):
    kept["p"] = details.progress
    return 5
d = s.register(ep, "com.p", options=types.RegisterOptions(details_arg="details"))
s.onMessage(message.Registered(t.sent[-1].request, 9)); spin()
t.sent.clear()
s.onMessage(message.Invocation(100, 9, args=[1], receive_progress=True)); spin()
try:
    kept["p"](99)
except Exception as e:
    print("N: progress() after return raised", type(e).__name__, e)
print("N: replies for invocation 100:", [(type(m).__name__, getattr(m, "progress", None), m.args) for m in t.sent])

# F
class S(_SessionShim):
    def on_join(self, d): pass
s = S(); t = MockTransport(); s.onOpen(t); spin()
s.onMessage(message.Welcome(1, {"broker": role.RoleBrokerFeatures(), "dealer": role.RoleDealerFeatures()})); spin()
d = s.call("com.x")
s.onMessage(message.Goodbye()); spin()
s.onClose(True); spin()
print("F: pep8 Session, call pending at GOODBYE + transport close: done =", d.done(), "| _call_reqs:", len(s._call_reqs))
s2, t2 = joined()
d2 = s2.call("com.x")
s2.onMessage(message.Goodbye()); spin(); s2.onClose(True); spin()
print("F: ApplicationSession, same history: done =", d2.done(), "| exception:", type(d2.exception()).__name__ if d2.done() else None)
