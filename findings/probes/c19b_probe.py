"""Dev-only: a session whose only authenticator is WAMP-SCRAM receives a WELCOME that names no authmethod (no CHALLENGE, no server signature)."""
from wamp_harness import *
from autobahn.wamp import auth
from autobahn.wamp.types import ComponentConfig

from autobahn.wamp.protocol import _SessionShim
class S(_SessionShim):
    def on_join(self, details):
        self.joined_details = details
    def on_connect(self): pass
    def on_leave(self, d): pass
    def on_disconnect(self): pass

for am in (None, "anonymous", "scram"):
    s = S(ComponentConfig("realm1")); s.add_authenticator(auth.AuthScram(authid="user", password="pw"))
    t = MockTransport(); s.onOpen(t); spin()
    hello = t.sent[0]
    s.onMessage(message.Welcome(7, {"broker": role.RoleBrokerFeatures()}, authmethod=am, authid="user", authrole="admin")); spin()
    print(f"HELLO authmethods={hello.authmethods}; WELCOME authmethod={am!r}: session_id={s._session_id} joined={hasattr(s,'joined_details')} sent={[type(m).__name__ for m in t.sent[1:]]} closed={t.closed}")
