"""Dev-only: which octets inside a header VALUE make parseHttpHeader start a new header line?"""
import txaio; txaio.use_asyncio()
from autobahn.websocket.protocol import parseHttpHeader
for sep in (b"\n", b"\r", b"\x0b", b"\x0c", b"\x1c", b"\x1d", b"\x1e", b"\x85"):
    data = b"GET / HTTP/1.1\r\nHost: example.com\r\nUser-Agent: a" + sep + b"Origin: http://smuggled.example\r\n\r\n"
    line, h, cnt = parseHttpHeader(data)
    print(f"value containing {sep!r}: headers {sorted(h)}" + ("   <-- a header the peer never sent as one" if "origin" in h else ""))
