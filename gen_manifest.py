#!/venv/bin/python
"""Regenerates MANIFEST.json from the table below (kept in one place so it is always valid)."""
import json, os
CLAIMED = {
 "C01": ("codec-table agreement: vectorised abstract interpretation of the encoders' length/bit cascades vs an RFC 6455 table; loop-role proof obligations; index-agreement and who-may-touch (FIFO) rules over the AST/CFG",
         "Decides necessary structural conditions of the frame codec on every path: the three encoders' payload-length coding equals RFC 6455 5.2 on every boundary class (the decoder's is proven in C02.1), header bit layout for all 256 fin/rsv/opcode values, the fragmentation and chop loops partition the payload into adjacent slices with correct FIN/opcode/RSV roles, every buffer split uses one index, the send queue is only used FIFO and direct writes cannot overtake it, both adapters forward every hook unchanged. Does not decide exactly-once in-order delivery for all segmentations and API mixes (runtime schedules).",
         "3 C01"),
 "C02": ("decision-table extraction: vectorised abstract interpretation of processData()'s header cascade over the complete finite domain (2^16 headers x 64 contexts) compared cell-by-cell with an RFC 6455 table; predicate extension over 0..65535 for close codes; guard-dominance rules on CFG",
         "Exhaustive for the header verdict: all 4 194 304 (context, first-two-octets) cells plus every boundary class of the extended length are compared with a reference table written from RFC 6455 5.2/5.5 and RFC 7692; the close-code predicate is compared by extension over all 65536 codes; UTF-8 fail-fast ordering, 1002/1007 + drop-vs-close policy, pong echo and the delivery gate are proven as dominance facts on the CFG. Does not decide independence from read boundaries (runtime segmentation).",
         "3 C02"),
 "C03": ("writer/reader table extraction over the AST + must-facts (marshal/marshal_options vs parse, positions and option keys followed through locals to the constructor call), guard/field and guard-strength rules, registry completeness, codec-pair constant agreement for batching and the JSON bytes convention",
         "Decides the structural necessary conditions of round-tripping for all 25 classes: marshal and parse know the same option/detail keys, each key and list position is written from the attribute it is parsed into, each guard tests the field it emits and does not drop an admissible falsy value, every emitted list shape has an accepted length (lengths from the C08 interpretation); MESSAGE_TYPE_MAP maps every class under its own unique code; the four transport object serializers' batch framing agrees between serialize and unserialize (delimiter / length-prefix format, width, cursor advance, trailing check); the binary flag is the object serializer's BINARY; JSON bytes prefixes and inverse functions agree. Does not decide value fidelity of the third-party codecs.",
         "3 C03"),
 "C04": ("correlation-table rules on CFG/must-facts: def-use of the request id through table key / record / message, must-precede (record before send, remove before complete), arm-wise table ownership in onMessage, nullness guards for Optional payload, option-key subset check",
         "Decides on all paths of the six request APIs and the seven reply arms: one id allocation per request feeds the key of the API's own pending table, the record and the message (with the caller's URI/args/kwargs unmodified); the record exists before send and is removed with re-raise when send fails (call/publish); each reply arm consults only the table of its request kind with msg.request, an unknown id ends in ProtocolError; the record is removed before the pending result is completed, nothing completes twice on a path, the progressive path neither removes nor completes; Optional args/kwargs are never unpacked unguarded; option objects emit only keys the message constructor accepts; the id generator starts at 1 and wraps after 2^53. Does not decide exactly-once under all reply interleavings (histories).",
         "3 C04"),
 "C05": ("typestate / guard-dominance analysis over CFG + call graph (must-facts dataflow, backwards argument tracing)",
         "Decides on all paths of the code: permitted predecessor states of every self.state writer, single guarded close-frame site, state==OPEN guard of every send API, legality of every close code/reason reaching sendCloseFrame, ownership and mutual exclusion of the close notification, closing-timer pairing. Does not decide the behaviour under all event interleavings or real-time bounds (runtime schedules).",
         "3 C05"),
 "C07": ("acceptance-dominance (must-facts at the acceptance node on the CFG), data-flow rules for the accept digest / request construction, regex-AST anchoring check, interprocedural may-raise (exception-escape) analysis with taint and guard discharge",
         "Decides on all paths: every RFC 6455 section 4 obligation holds as a must-fact where the server hands the request to onConnect and where the client sets state = OPEN (17 + 10 obligations plus structural ones for token flags, duplicate detection, origin policy, extension handling), failHandshake always ends processing; the accept digest is SHA-1(key + RFC GUID) of the validated / sent key; origin patterns are anchored and matched against the whole origin; the server's answer is a subset of the offer; the client request is built from parse_url components; no exception caused by a risky library operation on peer-controlled data can leave the handshake entry points. Does not decide acceptance of exactly the HTTP grammar for arbitrary octets.",
         "3 C07"),
 "C08": ("abstract interpretation over type atoms (own interpreter: narrowing, trace partitioning, computed callee summaries) of every Message.parse into its constructor's asserts; format extraction from class docstrings; regex-AST anchoring; guard facts for the envelope",
         "Sound for the modelled subset, for all inputs at once: every one of the 25 parse() functions is interpreted on an arbitrary list of arbitrary values; every assert of the message constructors (and _init_app_payload/_init_forward_for) reached by a surviving abstract value is either discharged or reported with witness atoms (419 obligations); no exception other than ProtocolError/InvalidUriError and no out-of-range element access can leave parse(); ids/URIs/options at the positions documented in the class docstrings go through the matching validator, whose own extension on arbitrary input is computed (ids exactly int in 0..2^53); URI patterns are anchored; Serializer.unserialize wraps the decoder in `except Exception` and checks list / non-empty / int code / known code before parse. Does not decide equivalence of the re-marshalled value (C03 decides the structural part).",
         "3 C08"),
 "C09": ("exhaustive product-automaton comparison of the extracted DFA (Python table under the loop's index expression, C table literal, macro-expanded C if-chain compiled to a transition relation) with a recogniser generated from the RFC 3629 ABNF; structural exit-path rules for index/state bookkeeping; who-may-be-called rule for the dispatcher",
         "Exhaustive for the automaton: every transition of every reachable state on every byte is compared with the RFC 3629 reference for language, code-point boundary and absorbing reject, in the Python validate() and decode() index forms, the C table (must equal the Python tuple) and the C unrolled macro, in three preprocessor worlds; on every exit path the offending byte's position / chunk length and the state are stored as required, a chunk fed in REJECT stays invalid, the dispatcher reaches only checked implementations and the cffi wrapper maps the result code to the 4-tuple. Assumes the compiled extension is built from the analysed C file.",
         "3 C09"),
 "C12": ("writer/reader table extraction and agreement over the AST (extension strings vs parse loops, 4 PMCE modules), guard facts at every stored wire value, role-mapping table check of (de)compressor set-up and factory methods, raise-site fact matching for offer/accept compatibility, constant agreement of the sync-flush tail, guard-dominance of RSV1/doNotCompress gating",
         "Decides the negotiation and gating clauses on all paths: parameter names agree between writers and readers; every parse loop rejects repeated, unknown, non-integer and out-of-range parameters (9..15 for deflate); each direction is set up from the parameter family of the sending role and negated for raw deflate; factory methods bind offer/response/accept fields to the matching family; incompatible accepts raise; the sender strips exactly the 4-octet tail the receiver re-appends; RSV1 and the compressor are used only when an extension is active and doNotCompress is off, and decompression follows the RSV1 of the first frame. Does not decide losslessness of the compression libraries or context takeover across messages (run-time library state).",
         "3 C12"),
 "C15": ("key-index analysis: residue-domain evaluation of the Python maskers' index expressions; symbolic affine execution (path-forking, loop summarisation, arithmetic modulo 4 / 16) of the pycparser AST of nvx/_xormasker.c in both preprocessor worlds; guard extraction for the mask policy",
         "For all payload lengths, entry pointers and buffer alignments (symbolically, not sampled): in every implementation - Python simple and table-shifted, C scalar and SSE2 (head / aligned 16-byte body / tail on each of its 8 paths) - the regions written tile [0, len) exactly once, the key index of the byte at offset k is (ptr + k) mod 4, aligned SIMD loads are 16-byte aligned and the pointer advances by len; the dispatcher reaches only those implementations; both factories switch at 128; frames are masked with a fresh random key iff the role policy says so, prepared messages iff client, and the receiver unmasks with the frame's own key. Assumes the compiled extension is built from the analysed C file.",
         "3 C15"),
 "C16": ("guard-dominance rules on CFG/must-facts (limit test extension, gate flag ordering, must-pass-through of the send-side test), API-pairing rule for bounded decompress",
         "Decides on all paths: the receive-side limit test is `0 < limit < size` (strict, 0 disables) on the running total, sits at frame begin before any payload octet is processed, fails with 1009; every buffer append / delivery is gated by `not failedByMe`; the send-side test dominates every frame write and compares the post-compression length; a bounded decompress() must inspect unconsumed_tail (one known finding: permessage-deflate truncates). Does not decide run-time interaction with fragment spreading.",
         "3 C16"),
 "C17": ("timer typestate: table extraction of call_later handles + arm/cancel/clear pairing and state re-check dominance on CFG",
         "Decides the timer typestate on all paths: five timers tabulated with handler and delay; each armed only under a positive timeout at the required site; cancelled and cleared where the peer met the deadline and at connection loss; every handler re-checks the state (or is cancelled on every transition to CLOSED) before touching the close bookkeeping or the transport; each reports unclean with its own reason and aborts. Does not decide deadlines or slack in time units (runtime clock).",
         "3 C17"),
}
NA_REASON = {}
ALL = [f"C{i:02d}" for i in range(1, 21)]
def main():
    checks = []
    for pid in ALL:
        if pid not in CLAIMED:
            continue
        tech, text, ref = CLAIMED[pid]
        checks.append({
            "property_id": pid,
            "quick_cmd": f"./check {pid} --tier quick",
            "thorough_cmd": f"./check {pid} --tier thorough",
            "evidence_file": f"/verif/evidence/{pid}.json",
            "replay_cmd_template": f"./check {pid} --replay {{path}}",
            "engine": "sa",
            "level_claimed": {"category": "other", "text": text, "design_ref": f"DESIGN.md section {ref}"},
            "level_note": "static analysis of /repo source only (CPython ast, own CFG/call-graph engine); trusted base: the engine in sa/core and the embedded RFC tables; decides the listed structural clauses of the statement, not the runtime behaviour",
            "technique": tech,
        })
    na = [{"property_id": p, "reason": NA_REASON.get(p, "static rules for this property are not built yet in this tree (work in progress); no claim is made")}
          for p in ALL if p not in CLAIMED]
    m = {
        "version": 1,
        "setup_cmd": "/venv/bin/python -m compileall -q sa >/dev/null && /venv/bin/python -c 'import pycparser'",
        "hooks": {"guard": "AUTOBAHN_VERIF", "enable": "none needed: static analysis reads the source, no instrumentation commits exist",
                  "baseline_off_cmd": "cd /repo && /venv/bin/python -m pytest -ra -q -p no:cacheprovider --timeout=900 --continue-on-collection-errors",
                  "source_commits": [], "add_only": True},
        "engines": [{"name": "sa", "path": "/verif/sa", "serves_properties": sorted(CLAIMED),
                     "kind_free_text": "repository-specific static analyser: ast index + MRO/CHA call graph + statement CFG + must-facts dataflow + small abstract interpreters; pycparser front end for the NVX C files"}],
        "checks": checks,
        "not_applicable": na,
        "notes": "exit 0 = all armed rule instances hold (KNOWN-FINDING lines for entries of known_findings.json); exit 1 = VIOLATION lines; exit 2 = ANALYSIS-ERROR (checker blind, never a pass).",
    }
    with open(os.path.join(os.path.dirname(os.path.abspath(__file__)), "MANIFEST.json"), "w") as fh:
        json.dump(m, fh, indent=1)
if __name__ == "__main__":
    main()
