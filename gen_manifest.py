#!/venv/bin/python
"""Regenerates MANIFEST.json from the table below (kept in one place so it is always valid)."""
import json, os
CLAIMED = {
 "C01": ("codec-table agreement: vectorised abstract interpretation of the encoders' length/bit cascades vs an RFC 6455 table; loop-role proof obligations; index-agreement decided by cell-wise abstract evaluation of the receive loop over a small buffer model; who-may-touch (FIFO) rules over the AST/CFG; progress (re-process) rule after a complete header; prepared-message route rule",
         "Decides necessary structural conditions of the frame codec on every path: the three encoders' payload-length coding equals RFC 6455 5.2 on every boundary class (the decoder's is proven in C02.1), header bit layout for all 256 fin/rsv/opcode values, sendMessage's frames tile the wire payload with opcode/RSV1 on the first and FIN on the last frame only (384 cells), the chop loop partitions its data into adjacent slices, every buffer split of processData consumes exactly the octets it hands on (90 cells of need/have/buffered lengths), a complete header always asks for another round, prepared messages are sent pre-framed only when no compression extension is active, the send queue is only used FIFO and direct writes cannot overtake it, both adapters forward every hook unchanged and the asyncio receive queue keeps every chunk in arrival order (cell-wise). Does not decide exactly-once in-order delivery for all segmentations and API mixes (runtime schedules).",
         "3 C01"),
 "C02": ("decision-table extraction: vectorised abstract interpretation of processData()'s header cascade over the complete finite domain (2^16 headers x 64 contexts) compared cell-by-cell with an RFC 6455 table; predicate extension over 0..65535 for close codes; guard-dominance rules on CFG; truth tables (cell-wise abstract evaluation) of the UTF-8 verdict tests and the close-payload validator",
         "Exhaustive for the header verdict: all 4 194 304 (context, first-two-octets) cells plus every boundary class of the extended length are compared with a reference table written from RFC 6455 5.2/5.5 and RFC 7692; the close-code predicate is compared by extension over all 65536 codes; UTF-8 fail-fast ordering, 1002/1007 + drop-vs-close policy, pong echo and the delivery gate are proven as dominance facts on the CFG. Does not decide independence from read boundaries (runtime segmentation).",
         "3 C02"),
 "C03": ("writer/reader table extraction over the AST + must-facts (marshal/marshal_options vs parse, positions and option keys followed through locals to the constructor call), guard/field and guard-strength rules, registry completeness, codec-pair constant agreement for batching (the batch loop is evaluated cell-wise on a small buffer model) and the JSON bytes convention",
         "Decides the structural necessary conditions of round-tripping for all 25 classes: marshal and parse know the same option/detail keys, each key and list position is written from the attribute it is parsed into, each guard tests the field it emits, does not depend on another field being set (frozen allow-list for the documented groups) and does not drop an admissible falsy value, every emitted list shape has an accepted length (lengths from the C08 interpretation); MESSAGE_TYPE_MAP maps every class under its own unique code; the four transport object serializers' batch framing agrees between serialize and unserialize (delimiter / length-prefix format, width, cursor advance, trailing check); the binary flag is the object serializer's BINARY; JSON bytes prefixes and inverse functions agree; HELLO/WELCOME announce every role feature that is set, False included. Does not decide value fidelity of the third-party codecs.",
         "3 C03"),
 "C04": ("correlation-table rules on CFG/must-facts: def-use of the request id through table key / record / message, must-precede (record before send, remove before complete), arm-wise table ownership in onMessage, nullness guards for Optional payload, option-key subset and falsy-value guard checks",
         "Decides on all paths of the six request APIs and the seven reply arms: one id allocation per request feeds the key of the API's own pending table, the record and the message (with the caller's URI/args/kwargs unmodified); the record exists before send and is removed with re-raise when send fails (call/publish); each reply arm consults only the table of its request kind with msg.request, an unknown id ends in ProtocolError; the record is removed before the pending result is completed, nothing completes twice on a path, the progressive path neither removes nor completes and only a non-progressive RESULT does; option objects keep an explicitly given falsy value; Optional args/kwargs are never unpacked unguarded; option objects emit only keys the message constructor accepts; the id generator starts at 1 and wraps after 2^53. Does not decide exactly-once under all reply interleavings (histories).",
         "3 C04"),
 "C05": ("typestate / guard-dominance analysis over CFG + call graph (must-facts dataflow, backwards argument tracing); extension of the close-code predicate over 0..65535",
         "Decides on all paths of the code: permitted predecessor states of every self.state writer, single guarded close-frame site, state==OPEN guard of every send API, legality of every close code/reason reaching sendCloseFrame, ownership and mutual exclusion of the close notification, the open notification only while the state is still OPEN, closing-timer pairing (also through helper methods). Does not decide the behaviour under all event interleavings or real-time bounds (runtime schedules).",
         "3 C05"),
 "C06": ("decision-set extraction of the onMessage phase gate, guard-dominance / must-follow rules on CFG (GOODBYE flag, teardown order), registry completeness (pending tables), sibling agreement of the three transports' loss notification",
         "Decides on all paths: the pre-session phase accepts exactly WELCOME/ABORT/CHALLENGE and the established phase none of the handshake messages, both fall through to ProtocolError; both GOODBYE sends are guarded by the sent-flag and followed by setting it / ending the session; the failing of outstanding requests covers exactly the six tables created in __init__, clears them, rejects what is not completed, and is reached by onLeave and onDisconnect on every path, also in the overrides inside the library (pep8 Session, Application session); onClose drops the transport first, fires leave exactly when a session was joined (cell-wise), resets the id and always reaches onDisconnect; all six request APIs refuse with TransportLost first on every path, before anything is changed or an id allocated; each transport tells the session once (guarded, wrapped, reference cleared). Does not decide callback order under failing user callbacks (histories).",
         "3 C06"),
 "C07": ("acceptance-dominance (must-facts at the acceptance node on the CFG), data-flow rules for the accept digest / request construction, regex-AST anchoring check, interprocedural may-raise (exception-escape) analysis with taint and guard discharge",
         "Decides on all paths: every RFC 6455 section 4 obligation holds as a must-fact where the server hands the request to onConnect and where the client sets state = OPEN (17 + 10 obligations plus structural ones for token flags, duplicate detection, origin policy, extension handling), failHandshake always ends processing; the accept digest is SHA-1(key + RFC GUID) of the validated / sent key; origin patterns are anchored and matched against the whole origin; the server's answer is a subset of the offer; the client request is built from parse_url components and the resource is the URL's path;parameters?query as written (terms); the selected subprotocol is checked against the list that was sent and a response arriving before the request is refused; no exception caused by a risky library operation on peer-controlled data can leave the handshake entry points. Does not decide acceptance of exactly the HTTP grammar for arbitrary octets.",
         "3 C07"),
 "C08": ("abstract interpretation over type atoms (own interpreter: narrowing, trace partitioning, computed callee summaries) of every Message.parse into its constructor's asserts; format extraction from class docstrings; regex-AST anchoring; guard facts for the envelope",
         "Sound for the modelled subset, for all inputs at once: every one of the 25 parse() functions is interpreted on an arbitrary list of arbitrary values; every assert of the message constructors (and _init_app_payload/_init_forward_for) reached by a surviving abstract value is either discharged or reported with witness atoms (419 obligations); no exception other than ProtocolError/InvalidUriError and no out-of-range element access can leave parse(); ids/URIs/options at the positions documented in the class docstrings go through the matching validator, whose own extension on arbitrary input is computed (ids exactly int in 0..2^53); URI patterns are anchored; Serializer.unserialize wraps the decoder in `except Exception` and checks list / non-empty / int code / known code before parse. Does not decide equivalence of the re-marshalled value (C03 decides the structural part).",
         "3 C08"),
 "C09": ("exhaustive product-automaton comparison of the extracted DFA (Python table under the loop's index expression, C table literal, macro-expanded C if-chain compiled to a transition relation) with a recogniser generated from the RFC 3629 ABNF; structural exit-path rules for index/state bookkeeping; who-may-be-called rule for the dispatcher",
         "Exhaustive for the automaton: every transition of every reachable state on every byte is compared with the RFC 3629 reference for language, code-point boundary and absorbing reject, in the Python validate() and decode() index forms, the C table (must equal the Python tuple) and the C unrolled macro, in three preprocessor worlds; on every exit path the offending byte's position / chunk length and the state are stored as required, a chunk fed in REJECT stays invalid, the dispatcher reaches only checked implementations and the cffi wrapper maps the result code to the 4-tuple. Assumes the compiled extension is built from the analysed C file.",
         "3 C09"),
 "C10": ("interprocedural may-raise classification of the three ITransport.send implementations (serializer modelled as may-raise-anything), handler-coverage and must-precede rules on the invocation continuations' CFGs, identity checks of every reply construction; cell-wise abstract evaluation of the endpoint argument construction (36 cells of obj/details/args/kwargs)",
         "Decides on all paths: whatever can leave send() for an un-serializable or oversized reply is SerializationError or PayloadExceededError on all three transports; both continuations send the reply inside a try whose handlers for exactly those classes send ERROR(INVOCATION, msg.request); the record is stored before the continuations are attached and deleted before any reply; every YIELD/ERROR built in the arm carries msg.request, progressive YIELDs exist only under receive_progress, the endpoint gets the registered object first iff one was registered (identity, not truthiness), the caller's args/kwargs and details only if requested; the fallback ERROR never embeds the un-serializable payload; duplicate ids / unknown registrations are protocol violations; INTERRUPT cancels the matching pending result; progress() sends only before the terminal reply (4 histories); register(obj) requests every decorated method with its own options. Does not decide concurrent invocations or INTERRUPT timing (histories).",
         "3 C10"),
 "C11": ("may-alias analysis of stores inside the EVENT fan-out loop, isolation / argument-flow rules, must-precede rules for handler-list maintenance on CFG + must-facts; table model of the subscription registry; term extraction of the check_types wrapper",
         "Decides on all paths: no store in the per-handler loop targets an object that may alias the event's own args/kwargs; each handler is invoked through as_future with a swallowing errback and nothing in the loop raises or exits early except on an undecodable encrypted payload; arguments come from msg.args/msg.kwargs with details only for handlers that asked; SUBSCRIBED appends in order to a list created only for a new id; _unsubscribe removes and deactivates before counting and sends UNSUBSCRIBE iff the count is 0; UNSUBSCRIBED deactivates and forgets the id; an EVENT for an unknown id (membership, not truthiness) is a ProtocolError; the check_types wrapper checks every annotated parameter and forwards the call unchanged; a handler unsubscribing during delivery makes no other handler miss the event (9 cells); subscribe(obj) requests every decorated handler with its own options (64 cells). Does not decide subscribe/unsubscribe/EVENT histories.",
         "3 C11"),
 "C12": ("writer/reader table extraction and agreement over the AST (extension strings vs parse loops, 4 PMCE modules), guard facts at every stored wire value, role-mapping table check of (de)compressor set-up and factory methods, raise-site fact matching for offer/accept compatibility, constant agreement of the sync-flush tail, guard-dominance of RSV1/doNotCompress gating; cell-wise abstract evaluation of start_compress_message/start_decompress_message over (role x takeover x window) cells",
         "Decides the negotiation and gating clauses on all paths: parameter names agree between writers and readers; every parse loop rejects repeated, unknown, non-integer and out-of-range parameters (9..15 for deflate) and the header parser hands every occurrence of a repeated parameter on; each direction is set up from the parameter family of the sending role and negated for raw deflate; factory methods bind offer/response/accept fields to the matching family; incompatible accepts raise; the sender strips exactly the 4-octet tail the receiver re-appends; RSV1 and the compressor are used only when an extension is active and doNotCompress is off, and decompression follows the RSV1 of the first frame. Does not decide losslessness of the compression libraries or context takeover across messages (run-time library state).",
         "3 C12"),
 "C13": ("decision-table extraction: vectorised abstract interpretation of the four RawSocket handshake codecs over the complete finite domain (2^16 octet pairs x reserved-octet classes) compared with a table written from the WAMP RawSocket spec; guard-before-write rules for the length limits; exception-ladder rules (handler coverage, must-end-in-close) on the receive functions of all three transports; sibling agreement of abort(); order rule for subprotocol selection; uniqueness/range of serializer ids; rule for the octets pipelined behind the handshake; may-raise analysis of the refusal exceptions' constructors",
         "Exhaustive for the handshake verdict: for every value of octets 1-2 (and reserved-octet class) the four handshake functions attach a session iff magic == 0x7F and the serializer nibble is supported / equals the requested one, otherwise the connection is dropped and no later frame reaches a session; the negotiated send limit is 2^(9+exp) and the written octet (exp<<4)|serializer; over-limit frames are refused before any write/slice on both sides; every failure in unserialize/onMessage ends in abort/close without escaping (WebSocket: protocol-level errors 1002, others 1011); no frame type raises out of data_received; the WebSocket subprotocol is chosen in the client's order from the configured serializers; octets received behind the handshake are taken from the accumulated stream after the 4 handshake octets; RawSocket ping is answered with pong of the same payload; a frame whose text/binary flag differs from the negotiated serializer's is a protocol error. Does not decide behaviour under arbitrary TCP segmentation of the handshake (runtime).",
         "3 C13"),
 "C14": ("decision-table extraction of can_reconnect()/next_delay() over (failed x max_retries x attempts) by vectorised abstract interpretation; must-bounds dataflow (min/max/clamp) for the returned delay; who-may-write and who-may-call rules for the budget counters; reachability / must-pass-through rules on the CFGs of the reconnect-loop closures; guard facts at every completion of the per-connection and overall futures; event-name table agreement and parent-wiring dominance; cell-wise abstract evaluation of transport_check / handle_connect_error / the connection-lost wrappers",
         "Decides the budget arithmetic and the wiring on all paths: a transport may be attempted iff it is not failed and (max_retries == -1 or attempts <= max_retries); next_delay() is 0 exactly on the first attempt, never raises inside the budget and every returned delay is proven within [0, max_retry_delay]; the attempt counter has one increment that dominates the connect and is reset only at construction and on every successful join (the listener is attached to every session), failed() is called only under the fatal verdict; _connect_once is reachable only through transport_check -> sleep -> attempt_connect with a round-robin candidate that passed can_reconnect(); every failure path re-enters transport_check, exhaustion rejects start()'s result and returns; stop() leaves only an attached session and cancels the pending delay; every completion of the per-connection future in listeners and framework wrappers is guarded by is_called(); session events are accepted by the component, decorators register their own event, every created session gets the component as parent and fire() forwards unconditionally. Does not decide exactly-once completion under stop()/timer/connection interleavings nor delays on a virtual clock (schedules).",
         "3 C14"),
 "C15": ("key-index analysis: abstract interpretation of the Python maskers' process() loops (induction variable, pointer after the call) and cell-wise evaluation of the shifted tables on symbolic masks; symbolic affine execution (path-forking, loop summarisation, arithmetic modulo 4 / 16) of the pycparser AST of nvx/_xormasker.c in both preprocessor worlds; cell-wise evaluation of the mask policy in sendFrame/beginMessageFrame (128 cells)",
         "For all payload lengths, entry pointers and buffer alignments (symbolically, not sampled): in every implementation - Python simple and table-shifted, C scalar and SSE2 (head / aligned 16-byte body / tail on each of its 8 paths) - the regions written tile [0, len) exactly once, the key index of the byte at offset k is (ptr + k) mod 4, aligned SIMD loads are 16-byte aligned and the pointer advances by len; the dispatcher reaches only those implementations; both factories switch at 128; frames are masked with a fresh random key iff the role policy says so (or with the key given), and the key octets on the wire are the key the payload is XORed with (2 x 128 cells), prepared messages iff client, and the receiver unmasks with the frame's own key. Assumes the compiled extension is built from the analysed C file.",
         "3 C15"),
 "C18": ("cell-wise abstract evaluation of _message_from_exception and _exception_from_message over finite models of (exception kind incl. subclasses, registry content, args/kwargs nullness, constructor outcome); paired registry writes; flow rule on the ERROR arm",
         "Decides on all paths: the ERROR's URI is exc.error / the registered class's first pattern URI / wamp.error.runtime_error by the matching guard, args = list(exc.args) and kwargs = exc.kwargs reach the ERROR (or the codec) unchanged; each of the four constructions of a registered class is inside try/except Exception whose handler neither re-raises nor returns, and is guarded for None args/kwargs; the generic ApplicationError(msg.error, *args, **kwargs) fallback exists in all four shapes under correct guards and dominates the final return, so an exception object is returned on every path; define() writes both registries together for the same class and URI and @error fills the decorated class's own list; the ERROR arm rejects the pending call with that object. Does not decide equality of payload values after a serializer round trip.",
         "3 C18"),
 "C19": ("def-use term extraction (value numbering with inlining of repository helpers, normalised primitive spellings, commutative ordering, constant folding) of every signature value, compared with reference terms written from RFC 5802 / WAMP-SCRAM, RFC 6238 / 4226, WAMP-CRA, WAMP-cryptosign; path-condition rule on AuthScram.on_welcome; dominance of `res is None` over session establishment on the CFG of the WELCOME arm",
         "Decides the formula and the enforcement, not the numbers: for all inputs the value returned by AuthScram.on_challenge, AuthWampCra.on_challenge / compute_wcs / derive_key / pbkdf2, compute_totp / check_totp, cryptosign _format_challenge / _sign_challenge / CryptosignKey.sign / sign_challenge is the composition of primitives the standards prescribe (which primitive, which operand, which constant, which order); AuthScram.on_welcome returns None only on a path where hmac.compare_digest compared HMAC(HMAC(SaltedPassword,'Server Key'),AuthMessage) with the decoded scram_server_signature, its key material is written by on_challenge only; the session stores its id and notifies join only when the selected authenticator's on_welcome returned None, a rejection or an exception is answered with ABORT; a WELCOME naming an authmethod the client did not configure - or none at all when only WAMP-SCRAM is configured - is refused (16 cells). Library primitives (hmac, hashlib, PBKDF2HMAC, argon2, PyNaCl, base64/32) are trusted: numerical equality with an independent verifier and bit-flip sensitivity are not decided.",
         "3 C19"),
 "C20": ("guard/reachability rules on the four decrypting receive sites, construction rules on the six encrypting send sites, literal pairing of direction flags, table agreement of KeyRing.encode/decode (decode as an extracted term, _get_box cell-wise over 16 cells)",
         "Decides on all paths: with no codec, a decode exception, or a decoded URI different from the envelope URI no handler/endpoint is invoked and no call is resolved (EVENT dropped, RESULT rejected with ENC_*, INVOCATION answered with ERROR, ERROR surfaced as the encryption error); the compared URI is the one given to decode; on the encrypted path every message is built only from the encoded payload (no clear args/kwargs), which the constructors also assert; an invocation that arrived encrypted is answered encrypted or with an ERROR, never in clear; is_originating literals pair up and map to originator/responder boxes built from the right key halves; KeyRing.encode seals uri/args/kwargs and decode returns those keys. Does not decide NaCl correctness or tamper detection (cryptographic library at run time).",
         "3 C20"),
 "C16": ("cell-wise abstract evaluation of onMessageFrameBegin over (limit x running total x frame length x state) cells and of sendMessage's refusal; gate-flag ordering and must-pass-through on CFG/must-facts; API-pairing and overflow-accounting rules for every bounded decompress",
         "Decides on all paths: the receive-side limit test is `0 < limit < size` (strict, 0 disables) on the running total, sits at frame begin before any payload octet is processed, fails with 1009; every buffer append / delivery is gated by `not failedByMe`; the send-side test dominates every frame write and compares the post-compression length, prepared messages included; every bounded decompress() asks for one octet more than the remaining budget of the MESSAGE (running total across calls, 42 cells) and turns an overflow into PayloadExceededError -> 1009, never into a shortened message. Does not decide run-time interaction with fragment spreading.",
         "3 C16"),
 "C17": ("timer typestate: table extraction of call_later handles + arm/cancel/clear pairing and state re-check dominance on CFG; canonical-term check of the auto-ping payload and its comparison in the pong arm",
         "Decides the timer typestate on all paths: five timers tabulated with handler and delay; each armed only under a positive timeout at the required site; cancelled and cleared where the peer met the deadline and at connection loss; every handler re-checks the state (or is cancelled on every transition to CLOSED) before touching the close bookkeeping or the transport; each reports unclean with its own reason and aborts. Does not decide deadlines or slack in time units (runtime clock).",
         "3 C17"),
}
# round 4: rules added or re-founded on cell-wise evaluation (DESIGN.md section 10.1a); appended to the texts above
ADDENDA = {
 "C01": ("; cell-wise evaluation of the streaming send API (sendMessageFrameData, 25 cells) and of the queued writer _send (15 cells)",
         " Round 4: exactly the octets that still fit the announced frame are masked and written by sendMessageFrameData, the surplus is reported, not sent; one wake-up of _send writes exactly the queue head and keeps the rest in order."),
 "C02": ("; cell-wise evaluation of onFrameEnd (18 cells) and, when the close-code test is not one comparison chain, of the onCloseFrame prefix on the codes around every literal",
         " Round 4: a message ends exactly at its final data frame, control frames never touch the fragmentation state."),
 "C03": ("; abstract marshal -> parse round trip of the seven payload messages (10 cells each)",
         " Round 4: parse(marshal(m)) reconstructs args / kwargs / payload for every combination of absent, empty and given."),
 "C04": ("; cell-wise evaluation of the four message_attr() methods on admissible falsy option values; expression helpers expanded before the construction rule",
         " Round 4: an explicitly given falsy option (exclude_me=False ...) reaches the wire like a truthy one."),
 "C05": ("; cell-wise evaluation of the continuations of a pending onConnect() on a closed connection; the close-frame cells of C02 shared for the reported code and reason",
         " Round 4: neither side's success or failure continuation writes or delivers anything once the connection is closed; what onCloseFrame remembers is the current frame's code and reason."),
 "C06": ("; cell-wise evaluation of _errback_outstanding_requests over six tables with completed and uncompleted requests",
         " Round 4: tables emptied before the first errback runs, exactly the uncompleted requests rejected once."),
 "C07": ("; ROUND 4: the two validators are now decided cell-wise - server processHandshake on a well-formed request and 60 single-point deviations, client _actuallyStartHandshake followed by processHandshake on 33 responses, parseHttpHeader on values containing non-HTTP line separators - the must-fact obligations that depended on how membership, origin policy and key presence are computed were removed",
         " Round 4: the server hands a parsed request to onConnect exactly when RFC 6455 4.2.1 and the configured policy admit it (61 cells); the client's request names resource, host and port of its URL and it opens exactly for a 101 with the digest of the key it sent, an offered subprotocol and a known accepted extension (12 + 33 cells); header lines end at CRLF/LF only."),
 "C08": ("; cell-wise evaluation of parse() of the seven payload messages on 16 tail shapes",
         " Round 4: after the documented prefix only `list`, `list, dict` and `octets` are accepted, each into its own constructor argument."),
 "C10": ("; progress histories extended by the fallback-reply paths", " Round 4: no progressive result after a terminal reply that went out through the fallback ERROR path."),
 "C11": ("; event details bound to the EventDetails signature", " Round 4: details.topic is the EVENT's topic when given; publisher ... forward_for are the EVENT's."),
 "C12": ("; cell-wise evaluation of beginMessage (12 cells) and of the sync-flush tail handling", " Round 4: a streamed message is compressed iff an extension is active and the caller did not opt out, whatever the previous message was."),
 "C13": ("; cell-wise evaluation of both send() with the framing function evaluated in place (9 cells each)", " Round 4: a message is written iff it is within the announced maximum and within what the 24-bit length prefix can carry."),
 "C14": ("; history cells over on_leave / on_disconnect sharing the per-connection future (7 histories)", " Round 4: a connection finishes successfully only through a normal leave of its session, never merely because the transport went away."),
 "C16": ("", " Round 4: counter and flag of the per-message accounting are identified by their initialisation at message start, so an assignment in place of the accumulation is a verdict."),
 "C17": ("; cell-wise evaluation of the ping-cycle transitions (5 cells)", " Round 4: every transition of the automatic ping cycle leaves a next ping scheduled or a ping outstanding with its pong timeout armed."),
 "C18": ("; abstract marshal -> parse round trip of ERROR", " Round 4: what the exception carried survives ERROR.marshal() for every combination of args and kwargs."),
 "C19": ("", " Round 4: printf-style formatting and negative indices into fixed-length digests are canonical spellings of the same term."),
 "C20": ("; arguments of every encode/decode site bound through the KeyRing signature", " Round 4: each payload is sealed under / checked against the URI of its own operation; the results of an invocation under the URI the invocation was opened with."),
}
for _pid, (_t, _x) in ADDENDA.items():
    _tech, _text, _ref = CLAIMED[_pid]
    CLAIMED[_pid] = (_tech + _t, _text + _x, _ref)
# round 5 (DESIGN.md section 10.1a, second table)
ADDENDA5 = {
 "C01": " Round 5: a chopped write queues pieces of at most the chop size tiling the data in order (16 cells); reassembly survives control frames between fragments (C02.8 cells shared).",
 "C02": " Round 5: every legal ping payload (0..125 octets) is echoed in a pong, longer control payloads are never written (15 cells).",
 "C03": " Round 5: the JSON bytes convention as an abstract round trip in hex and base64 mode, the empty value included (12 cells).",
 "C04": " Round 5: IdGenerator.next over the stored counter (5 cells); options object and progress handler identified by canonical definition.",
 "C05": " Round 5: a drop timer counts as switched off by configuration only under the test of its own timeout.",
 "C12": " Round 5: deflate offer parse (15 cells): client_max_window_bits may be answered iff offered; per-message inflate state reset at every message start (8 cells).",
 "C13": " Round 5: the enforced receive limit is the announced one for any configured maximum (8 cells); asyncio frame types 0/1/2 dispatched, all others refused (16 cells).",
 "C14": " Round 5: every connection future returned by asyncio _connect_transport goes through the loss wrapper.",
 "C16": " Round 5: each payload-size option of setProtocolOptions sets its own limit and only that one, on both factories (4 cells); per-message total reset at message start (8 cells).",
 "C18": " Round 5: rendering an ApplicationError as text leaves args and kwargs untouched (6 cells); a raising onUserError override does not lose the error.",
 "C19": " Round 5: the sibling authenticators of autobahn.twisted.wamp compute the same terms as autobahn.wamp.auth.",
}
for _pid, _x in ADDENDA5.items():
    _tech, _text, _ref = CLAIMED[_pid]
    CLAIMED[_pid] = (_tech, _text + _x, _ref)
# round 6 (DESIGN.md section 10.1a, third table)
ADDENDA6 = {
 "C01": " Round 6: the streaming send API as histories on one shared state (16 histories): opcode / RSV1 on the first frame only, FIN on the last only, also for beginMessage directly followed by endMessage.",
 "C02": " Round 6: the asyncio receive queue hands every queued read to the decoder in arrival order (cells shared with C01.6).",
 "C03": " Round 6: a transparent payload of zero octets survives marshal -> parse with its enc_algo.",
 "C04": " Round 6: a newly established session draws its request ids from a fresh generator; with every option given each wire key carries the value of the option of its own name.",
 "C07": " Round 6: on asyncio all queued reads reach the handshake parser in arrival order before the consumer re-arms (cells shared with C01.6).",
 "C08": " Round 6: every option / detail key of every parse() bound to witnesses of every JSON/CBOR type and boundary value (1400+ cells): one accepted type per key, ids inside options in 0..2^53; SUBSCRIBE / REGISTER validate the URI with the grammar of the matching policy in force.",
 "C09": " Round 6: the empty chunk is judged by the state the validator is in (REJECT stays invalid), native variants and Python.",
 "C10": " Round 6: over-limit RawSocket replies decided by the send cells shared with C13.4.",
 "C13": " Round 6: Twisted handshake decision table spans non-zero reserved octets (3 x 65536 handshakes per role); octets behind the asyncio handshake reach the frame parser at once (28 cells).",
 "C14": " Round 6: the history [join, main fails] ends start() with main's error and schedules nothing; an ordinary failed attempt schedules the next one.",
 "C16": " Round 6: the 1009 sink evaluated on cells (exactly one _fail_connection(1009, reason)).",
}
for _pid, _x in ADDENDA6.items():
    _tech, _text, _ref = CLAIMED[_pid]
    CLAIMED[_pid] = (_tech, _text + _x, _ref)
# round 7 (DESIGN.md section 10.1a, fourth table; engine: canonical form of the parsed program, helpers / tables evaluated in place)
ADDENDA7 = {
 "C01": " Round 7: prepared-message first octet on cells; inflater parameters of the peer direction (cells shared with C12.8).",
 "C02": " Round 7: default protocol options (masking per role, UTF-8 validation) evaluated from resetProtocolOptions.",
 "C03": " Round 7: the URI validator hands an allowed None back (HELLO without a realm is read back).",
 "C04": " Round 7: the five plain reply arms on 4 table states each (resolved once and removed / left alone / protocol violation); tables emptied at session end (cells shared with C06.3); leftovers failed before the ids restart.",
 "C05": " Round 7: every close / drop timer armed under the test of its own timeout (table shared with C17.1).",
 "C07": " Round 7: Host values with several colons never raise; the subprotocol handed back by onConnect decided on 6 cells.",
 "C08": " Round 7: TypeError of pattern.match on a non-string and of set membership of an unhashable value are escaping exceptions.",
 "C09": " Round 7: when the DFA step is not in its usual statement form the validator itself is evaluated for every (state, octet); the native wrapper against a model library incl. the empty chunk.",
 "C10": " Round 7: the peer's RawSocket limit is recorded from the handshake in every role (tables shared with C13.1); INTERRUPT keeps the invocation in the table.",
 "C12": " Round 7: an empty message whose flush emits nothing still carries a valid empty deflate block; constructor parameters reach the attributes of their name.",
 "C13": " Round 7: both RawSocket clients' opening octets on cells (configured maximum x serializer id); asyncio receive limit on cells (a frame of the announced maximum is delivered, one octet more is refused at its prefix); WebSocket subprotocol selection on cells (server 24, client 10, factory 1).",
 "C14": " Round 7: every configured retry setting reaches the transport object as given, 0 included (15 cells).",
 "C15": " Round 7: prepared messages over applyMask x length branch (8 cells): mask bit, drawn key, payload through the masker of that key.",
 "C16": " Round 7: each size option also with the other limit preset to the same number.",
 "C17": " Round 7: the open-handshake timeout handler in each of the five connection states (drop exactly in CONNECTING and PROXY_CONNECTING).",
 "C20": " Round 7: KeyRing.encode / decode against a model box and codec (exactly {uri, args, kwargs} sealed, fresh nonce, fields returned in order).",
}
for _pid, _x in ADDENDA7.items():
    _tech, _text, _ref = CLAIMED[_pid]
    CLAIMED[_pid] = (_tech, _text + _x, _ref)
ADDENDA8 = {
 "C02": " Round 8: the judging options handed to setProtocolOptions reach the factory attribute of their name (cells over option x current values of the others).",
 "C03": " Round 8: every forward_for entry the constructor admits is read back by parse() (26 cells).",
 "C04": " Round 8: requests issued for a decorated object carry each method's own URI and options (cells shared with C11.7 / C10.5).",
 "C05": " Round 8: close options and timeouts reach the factory attribute of their name.",
 "C15": " Round 8: mask options reach the factory attribute of their name.",
 "C16": " Round 8: payload limits reach the factory attribute of their name.",
 "C17": " Round 8: configured timeouts reach the factory attribute of their name, whatever the other options are (13 options x 20-25 cells).",
}
for _pid, _x in ADDENDA8.items():
    _tech, _text, _ref = CLAIMED[_pid]
    CLAIMED[_pid] = (_tech, _text + _x, _ref)
NA_REASON = {}
ALL = [f"C{i:02d}" for i in range(1, 21)]
def main():
    checks = []
    for pid in ALL:
        if pid not in CLAIMED:
            continue
        tech, text, ref = CLAIMED[pid]
        checks.append({
            "property_id": pid,
            "quick_cmd": f"./check {pid} --tier quick",
            "thorough_cmd": f"./check {pid} --tier thorough",
            "evidence_file": f"/verif/evidence/{pid}.json",
            "replay_cmd_template": f"./check {pid} --replay {{path}}",
            "engine": "sa",
            "level_claimed": {"category": "other", "text": text, "design_ref": f"DESIGN.md section {ref}"},
            "level_note": "static analysis of /repo source only (CPython ast, own CFG/call-graph engine); trusted base: the engine in sa/core and the embedded RFC tables; decides the listed structural clauses of the statement, not the runtime behaviour",
            "technique": tech,
        })
    na = [{"property_id": p, "reason": NA_REASON.get(p, "static rules for this property are not built yet in this tree (work in progress); no claim is made")}
          for p in ALL if p not in CLAIMED]
    m = {
        "version": 1,
        "setup_cmd": "/venv/bin/python -m compileall -q sa >/dev/null && /venv/bin/python -c 'import pycparser'",
        "hooks": {"guard": "AUTOBAHN_VERIF", "enable": "none needed: static analysis reads the source, no instrumentation commits exist",
                  "baseline_off_cmd": "cd /repo && /venv/bin/python -m pytest -ra -q -p no:cacheprovider --timeout=900 --continue-on-collection-errors",
                  "source_commits": [], "add_only": True},
        "engines": [{"name": "sa", "path": "/verif/sa", "serves_properties": sorted(CLAIMED),
                     "kind_free_text": "repository-specific static analyser: ast index + MRO/CHA call graph + statement CFG + must-facts / must-bounds dataflow + def-use term extraction + abstract interpreters (type atoms, vectorised finite domains, cell-wise evaluation over small data-independent models, may-raise sets); pycparser front end + symbolic affine interpreter for the NVX C files"}],
        "checks": checks,
        "not_applicable": na,
        "notes": "exit 0 = all armed rule instances hold (KNOWN-FINDING lines for entries of known_findings.json); exit 1 = VIOLATION lines; exit 2 = ANALYSIS-ERROR (checker blind, never a pass).",
    }
    with open(os.path.join(os.path.dirname(os.path.abspath(__file__)), "MANIFEST.json"), "w") as fh:
        json.dump(m, fh, indent=1)
if __name__ == "__main__":
    main()
